(* R02: trace inclusion of L1 (Model/RaftCore.v + RaftNode.v, the model that is compared
   state by state with internal/raft) in L2 (Model/RaftNetCfgSnap.v, the abstract
   message-soup protocol of the global safety theorems).

   The driver executes every case on the extracted L1 model exactly as ocaml/raft/driver.ml
   does (same parser, same projection lines, so that the L1-vs-code comparison is part of
   this check as well) and maintains an L2 state [net4] beside it.  For every L1 operation
   an UNTRUSTED explainer proposes a short list of L2 labels; the labels are run through
   the EXTRACTED [step_fn4_sim] (proved sound: Props/R02.v), and the node state it computes
   must equal the abstraction of the L1 post-state; every message of a modelled kind that
   L1 put in its outbox must be in the L2 soup.

   Steps of a replica are explained when they become durable/visible, i.e. at its next
   Update (the U operation persists and releases the messages atomically): a RESTART
   discards what happened after the last Update in L1, and those steps never happened in
   L2 either (RaftNet.v, D8).  Steps of different replicas commute in L2 unless one reads a
   message the other one sent (all guards are monotone in the soup, except the restart guard,
   which reads the replica's own acknowledgements), and messages leave a replica only
   through an Update.  At the end of a case the steps still waiting are explained as well.

   Failure policy.  [Differs]/[Stuck] on a step = incl=FAIL.  [Unmodelled] = the schedule is
   outside the fault model of L2 (a message nobody sent, a replica re-created under its id,
   an apply event for an uncommitted entry): the L2 node is overwritten with the
   abstraction (resync, counted).  A replica whose membership events do not follow its log
   is tainted: a step of it that cannot be explained is resynchronised instead of failing.

   One line per case is added to the projection lines:
       <case> incl=ok steps=<ops> labels=<L2 steps> resync=<k> [kinds...]
       <case> incl=FAIL op=<index> <what differs>
   Per-kind statistics go to stderr. *)
open Model
open Util

(* ------------------------------------------------------------------ *)
(* text forms: copied from ocaml/raft/driver.ml *)

let b2i b = if b then "1" else "0"
let compare_n a b = compare (int_of_n a) (int_of_n b)
let sn = string_of_n
let join sep l = String.concat sep l

let fmt_entry (e : entry) =
  Printf.sprintf "%s:%s:%s:%s:%s:%s:%s:%s" (sn e.e_index) (sn e.e_term) (sn e.e_type) (sn e.e_key)
    (sn e.e_client) (sn e.e_series) (sn e.e_resp) (hex_of_bytes e.e_cmd)
let fmt_entries es = "[" ^ join "," (List.map fmt_entry es) ^ "]"

let split_on c s = String.split_on_char c s
let parse_entry s =
  match split_on ':' s with
  | [i; t; ty; k; c; se; r; cmd] ->
    { e_index = n_of_string i; e_term = n_of_string t; e_type = n_of_string ty; e_key = n_of_string k;
      e_client = n_of_string c; e_series = n_of_string se; e_resp = n_of_string r; e_cmd = bytes_of_hex cmd }
  | _ -> failwith ("bad entry " ^ s)
let parse_entries s =
  let s = String.sub s 1 (String.length s - 2) in
  if s = "" then [] else List.map parse_entry (split_on ',' s)

let join_ids ids = if ids = [] then "." else join "+" (List.map sn ids)
let split_ids s = if s = "." || s = "" then [] else List.map n_of_string (split_on '+' s)

let fmt_snapshot (s : snapshot) =
  if s.ss_index = N0 then "-" else
  Printf.sprintf "%s/%s/%s/%s/%s/%s/%s/%s/%s" (sn s.ss_index) (sn s.ss_term) (join_ids s.ss_addrs)
    (join_ids s.ss_nonvotings) (join_ids s.ss_witnesses) (b2i s.ss_witness) (b2i s.ss_dummy) (b2i s.ss_has_file) (sn s.ss_ccid)
let parse_snapshot t =
  if t = "-" then empty_snapshot else
  match split_on '/' t with
  | [i; tm; a; nv; w; wi; d; f; cc] ->
    { ss_index = n_of_string i; ss_term = n_of_string tm; ss_addrs = split_ids a; ss_nonvotings = split_ids nv;
      ss_witnesses = split_ids w; ss_witness = (wi = "1"); ss_dummy = (d = "1"); ss_has_file = (f = "1"); ss_ccid = n_of_string cc }
  | [i; tm; a; nv; w; wi; d; f] ->
    { ss_index = n_of_string i; ss_term = n_of_string tm; ss_addrs = split_ids a; ss_nonvotings = split_ids nv;
      ss_witnesses = split_ids w; ss_witness = (wi = "1"); ss_dummy = (d = "1"); ss_has_file = (f = "1"); ss_ccid = N0 }
  | _ -> failwith ("bad snapshot " ^ t)

let replace_char a b s = String.map (fun c -> if c = a then b else c) s

let fmt_msg (m : msg) =
  Printf.sprintf "%s:%s:%s:%s:%s:%s:%s:%s:%s:%s:%s:%s" (sn m.m_type) (sn m.m_to) (sn m.m_from) (sn m.m_term)
    (sn m.m_logterm) (sn m.m_logindex) (sn m.m_commit) (b2i m.m_reject) (sn m.m_hint) (sn m.m_hinthigh)
    (replace_char ':' '_' (fmt_entries m.m_entries)) (fmt_snapshot m.m_snapshot)

let parse_msg s =
  match split_on ':' s with
  | [ty; to_; from; term; lt; li; c; rej; h; hh; ents; snap] ->
    { m_type = n_of_string ty; m_to = n_of_string to_; m_from = n_of_string from; m_term = n_of_string term;
      m_logterm = n_of_string lt; m_logindex = n_of_string li; m_commit = n_of_string c; m_reject = (rej = "1");
      m_hint = n_of_string h; m_hinthigh = n_of_string hh;
      m_entries = parse_entries (replace_char '_' ':' ents); m_snapshot = parse_snapshot snap }
  | _ -> failwith ("bad msg " ^ s)

let msg_group (m : msg) =
  match int_of_n m.m_type with
  | 14 | 15 | 26 | 27 | 24 -> 0
  | 12 | 13 | 16 -> 1
  | 17 | 18 -> 2
  | 19 | 20 -> 3
  | _ -> 4
let fmt_msgs ms =
  join " " (List.mapi (fun g name ->
    name ^ "=[" ^ join "," (List.sort compare (List.map fmt_msg (List.filter (fun m -> msg_group m = g) ms))) ^ "]")
    ["mvote"; "mrepl"; "mhb"; "mread"; "mother"])

let rstate_num = function RRetry -> "0" | RWait -> "1" | RReplicate -> "2" | RSnapshot -> "3"

let project (r : raft) : string =
  let l = r.r_log in
  let b = Buffer.create 1024 in
  let add = Buffer.add_string b in
  add (Printf.sprintf "n=%s role=%s term=%s vote=%s lead=%s appl=%s comm=%s proc=%s first=%s last=%s mterm=%s saved=%s"
    (sn r.r_id) (sn (role_num r.r_role)) (sn r.r_term) (sn r.r_vote) (sn r.r_leader) (sn r.r_applied)
    (sn l.l_committed) (sn l.l_processed) (sn (log_first l)) (sn (log_last l)) (sn l.l_marker_term) (sn l.l_saved_to));
  add (Printf.sprintf " tick=%s/%s/%s/%s flags=%s%s%s%s xfer=%s" (sn r.r_election_tick) (sn r.r_heartbeat_tick)
    (sn r.r_rand_timeout) (sn r.r_tick_count) (b2i r.r_is_transfer_target) (b2i r.r_pending_cc) (b2i r.r_quiesce)
    (b2i r.r_snapshotting) (sn r.r_transfer_target));
  add (" ents=" ^ fmt_entries l.l_ents);
  (match l.l_pending_snap with Some s -> add (" psnap=" ^ fmt_snapshot s) | None -> add " psnap=-");
  let peers kind m = List.map (fun (id, p) ->
    Printf.sprintf "%d:%s:%s:%s:%s:%s:%s:%s:%s" kind (sn id) (sn p.rm_match) (sn p.rm_next) (rstate_num p.rm_state)
      (sn p.rm_snapidx) (b2i p.rm_active) (sn p.rm_ack_tick) (b2i p.rm_ack_rej)) m in
  add (" peers=[" ^ join "," (peers 0 r.r_remotes @ peers 1 r.r_nonvotings @ peers 2 r.r_witnesses) ^ "]");
  add (" votes=[" ^ join "," (List.map (fun (id, v) -> sn id ^ ":" ^ b2i v) r.r_votes) ^ "]");
  add (" reads=[" ^ join "," (List.map (fun rs ->
    Printf.sprintf "%s:%s:%s:%s:%s" (sn (fst rs.rs_ctx)) (sn (snd rs.rs_ctx)) (sn rs.rs_index) (sn rs.rs_from)
      (join_ids (List.sort compare_n rs.rs_confirmed))) r.r_reads) ^ "]");
  add (" " ^ fmt_msgs r.r_msgs);
  add (" ready=[" ^ join "," (List.map (fun (i, (lo, hi)) -> Printf.sprintf "%s:%s:%s" (sn i) (sn lo) (sn hi)) r.r_ready) ^ "]");
  add (" dent=" ^ fmt_entries r.r_dropped_entries);
  add (" dreads=[" ^ join "," (List.map (fun (lo, hi) -> sn lo ^ ":" ^ sn hi) r.r_dropped_reads) ^ "]");
  (match r.r_leader_update with Some (lid, t) -> add (Printf.sprintf " lu=%s:%s" (sn lid) (sn t)) | None -> add " lu=-");
  let ((pt, pv), pc) = r.r_prev_state in
  add (Printf.sprintf " prev=%s:%s:%s" (sn pt) (sn pv) (sn pc));
  Buffer.contents b

let fmt_update (u : update) =
  let st = match u.u_state with Some ((t, v), c) -> Printf.sprintf "%s:%s:%s" (sn t) (sn v) (sn c) | None -> "-" in
  Printf.sprintf " upd=state=%s;save=%s;apply=%s;more=%s;snap=%s;fast=%s" st (fmt_entries u.u_entries_to_save)
    (fmt_entries u.u_committed_entries) (b2i u.u_more)
    (match u.u_snapshot with Some s -> fmt_snapshot s | None -> "-") (b2i u.u_fast_apply)

let kind_of = function "N" -> NonVoting | "W" -> Witness | _ -> Follower

let split_op s =
  let s = String.trim s in
  match String.rindex_opt s '@' with
  | None -> (s, N0)
  | Some i -> (String.trim (String.sub s 0 i), n_of_string (String.trim (String.sub s (i + 1) (String.length s - i - 1))))

let header_val hdr key =
  let v = ref "0" in
  List.iter (fun f -> match split_on '=' f with [k; x] when k = key -> v := x | _ -> ()) (split_ws hdr);
  !v

let split_ops s =
  let parts = ref [] and cur = Buffer.create 64 in
  let n = String.length s in
  let i = ref 0 in
  while !i < n do
    if !i + 2 < n && s.[!i] = ' ' && s.[!i+1] = ';' && s.[!i+2] = ' ' then begin
      parts := Buffer.contents cur :: !parts; Buffer.clear cur; i := !i + 3
    end else begin Buffer.add_char cur s.[!i]; incr i end
  done;
  parts := Buffer.contents cur :: !parts;
  List.rev !parts

(* ------------------------------------------------------------------ *)
(* R02 proper *)

let ni = int_of_n
let debug = (try Sys.getenv "R02_DEBUG" <> "" with Not_found -> false)

(* small Peano numbers, shared *)
let nat_cache = Array.make 4096 O
let () = for i = 1 to 4095 do nat_cache.(i) <- S nat_cache.(i - 1) done
let nat (i : int) = if i < 0 then O else if i < 4096 then nat_cache.(i) else nat_of_int i
let inat = int_of_nat

exception Unmodelled of string      (* a situation the L2 model / the explainer does not cover: resync *)
exception Stuck of string           (* a proposed label is not enabled *)
exception Differs of string         (* the computed L2 state is not the abstraction of the L1 state *)

(* the abstraction of an L1 replica; indexes are L2 indexes: the bootstrap entries
   (L1 indexes 1..nboot, term 1, committed at launch) are not part of the L2 log, the
   bootstrap voters are the initial configuration C0 of the L2 model *)
type abs = {
  a_term : int; a_vote : int; a_role : int;      (* 0 follower-like, 1 candidate, 2 leader *)
  a_first : int; a_fterm : int;                  (* snapshot index and the term there (0 if unknown) *)
  a_ents : (int * int) list;                     (* (term, payload id) above a_first; payload -1 = any *)
  a_last : int; a_commit : int;
  a_pending : bool;
}

type bufop = {
  b_k : int; b_name : string; b_f : string array;
  b_pre : node option; b_post : node;
  b_mapp : int;                                   (* L1 index up to which membership effects were delivered *)
  b_memb : bool;                                  (* the replica's membership reflects at least the bootstrap entries *)
}

type rep = {
  mutable nd : node;
  mutable initial : bool;
  mutable acur : int;      (* last L1 index whose apply effect was delivered to raft in this incarnation *)
  mutable mapp : int;      (* max over incarnations after the last snapshot: what the membership reflects *)
  mutable buf : bufop list;  (* newest first *)
  mutable taint : string option;
  mutable live : bool;     (* an L2 node is in sync with it *)
}

(* statistics over all cases *)
let stat_expl : (string, int) Hashtbl.t = Hashtbl.create 32
let stat_resync : (string, int) Hashtbl.t = Hashtbl.create 32
let stat_labels : (string, int) Hashtbl.t = Hashtbl.create 32
let stat_taint : (string, int) Hashtbl.t = Hashtbl.create 32
let stat_nonempty : (string, int) Hashtbl.t = Hashtbl.create 32   (* explained by at least one label *)
let bump h k n = Hashtbl.replace h k (n + (try Hashtbl.find h k with Not_found -> 0))

let label_name = function
  | L4Base (L3Base l) ->
    (match l with
     | LTimeout _ -> "LTimeout" | LHigherTerm _ -> "LHigherTerm" | LStepDown _ -> "LStepDown"
     | LHandleRV _ -> "LHandleRV" | LBecomeLeader _ -> "LBecomeLeader" | LPropose _ -> "LPropose"
     | LSendAE _ -> "LSendAE" | LHandleAE _ -> "LHandleAE" | LAdvanceCommit _ -> "LAdvanceCommit"
     | LSendHB _ -> "LSendHB" | LHandleHB _ -> "LHandleHB" | LSelfAck _ -> "LSelfAck"
     | LRestart _ -> "LRestart")
  | L4Base (L3Apply _) -> "L3Apply" | L4Base (L3Crash _) -> "L3Crash"
  | L4Compact _ -> "L4Compact" | L4SendIS _ -> "L4SendIS" | L4HandleIS _ -> "L4HandleIS"

let fmt_l2ents es = "[" ^ join "," (List.map (fun e -> Printf.sprintf "%d/%d" (inat e.eterm) (inat e.epay)) es) ^ "]"

let label_text l =
  let p = Printf.sprintf in
  match l with
  | L4Base (L3Base l) ->
    (match l with
     | LTimeout i -> p "LTimeout %d" (inat i)
     | LHigherTerm (i, t) -> p "LHigherTerm %d %d" (inat i) (inat t)
     | LStepDown i -> p "LStepDown %d" (inat i)
     | LHandleRV (i, t, c, li, lt) -> p "LHandleRV %d t=%d cand=%d li=%d lt=%d" (inat i) (inat t) (inat c) (inat li) (inat lt)
     | LBecomeLeader i -> p "LBecomeLeader %d" (inat i)
     | LPropose (i, x) -> p "LPropose %d pay=%d" (inat i) (inat x)
     | LSendAE (i, prev, len, lc) -> p "LSendAE %d prev=%d len=%d lc=%d" (inat i) (inat prev) (inat len) (inat lc)
     | LHandleAE (j, t, ldr, prev, pt, es, lc) ->
       p "LHandleAE %d t=%d ldr=%d prev=%d pt=%d ents=%s lc=%d" (inat j) (inat t) (inat ldr) (inat prev) (inat pt) (fmt_l2ents es) (inat lc)
     | LAdvanceCommit (i, k) -> p "LAdvanceCommit %d %d" (inat i) (inat k)
     | LSendHB (i, j, c) -> p "LSendHB %d to=%d c=%d" (inat i) (inat j) (inat c)
     | LHandleHB (j, t, ldr, c) -> p "LHandleHB %d t=%d ldr=%d c=%d" (inat j) (inat t) (inat ldr) (inat c)
     | LSelfAck i -> p "LSelfAck %d" (inat i)
     | LRestart (i, c, m) -> p "LRestart %d %d %d" (inat i) (inat c) (inat m))
  | L4Base (L3Apply i) -> p "L3Apply %d" (inat i)
  | L4Base (L3Crash (i, c, m, a)) -> p "L3Crash %d c=%d m=%d a=%d" (inat i) (inat c) (inat m) (inat a)
  | L4Compact (i, k) -> p "L4Compact %d %d" (inat i) (inat k)
  | L4SendIS (i, x) -> p "L4SendIS %d sidx=%d" (inat i) (inat x)
  | L4HandleIS (j, t, ldr, x, y) -> p "L4HandleIS %d t=%d ldr=%d sidx=%d sterm=%d" (inat j) (inat t) (inat ldr) (inat x) (inat y)

let base l = L4Base (L3Base l)

(* protobuf ConfigChange: 08 <id> 10 <type> 18 <replica> 22 <len> <addr> 28 <init> *)
let decode_cc (cmd : n list) : (int * int) option =
  let a = Array.of_list (List.map ni cmd) in
  let pos = ref 0 in
  let varint () =
    let v = ref 0 and sh = ref 0 and go = ref true in
    while !go do
      if !pos >= Array.length a then raise Exit;
      let b = a.(!pos) in incr pos;
      v := !v lor ((b land 127) lsl !sh); sh := !sh + 7;
      if b < 128 then go := false
    done; !v in
  try
    let tag t = if !pos >= Array.length a || a.(!pos) <> t then raise Exit else incr pos in
    tag 0x08; ignore (varint ()); tag 0x10; let ty = varint () in tag 0x18; let id = varint () in
    Some (ty, id)
  with Exit -> None

(* ------------------------------------------------------------------ *)
(* one case *)

type case_state = {
  mutable nboot : int;
  mutable c0 : nat list;
  mutable c0_set : bool;
  mutable l2 : net4;
  mutable labels : int;
  mutable resyncs : int;
  mutable resync_kinds : (string * int) list;
  mutable fail : string option;
  intern : (string, int) Hashtbl.t;
  reps : (string, rep) Hashtbl.t;
}

let ix cs (k : int) = if k > cs.nboot then k - cs.nboot else 0

let pay_of cs (e : entry) : int =
  match ni e.e_type with
  | 3 -> -1
  | 1 ->
    (match decode_cc e.e_cmd with
     | Some (ty, id) when ty >= 0 && ty <= 3 && id > 0 && id < 100 -> 100 * (ty + 1) + id
     | _ -> raise (Unmodelled "config-change-entry-not-decodable"))
  | _ ->
    if e.e_key = N0 && e.e_client = N0 && e.e_series = N0 && e.e_cmd = [] && e.e_resp = N0 && e.e_type = N0 then 0
    else begin
      let key = Printf.sprintf "%s:%s:%s:%s:%s:%s" (sn e.e_type) (sn e.e_key) (sn e.e_client) (sn e.e_series)
          (sn e.e_resp) (hex_of_bytes e.e_cmd) in
      match Hashtbl.find_opt cs.intern key with
      | Some v -> v
      | None ->
        let c = Hashtbl.length cs.intern in
        let v = if c < 99 then c + 1 else 500 + (c - 99) in
        Hashtbl.replace cs.intern key v; v
    end

(* entries of a list that lie above the bootstrap prefix, as (term, payload) *)
let abs_ents cs (es : entry list) : (int * int) list =
  List.filter_map (fun e -> if ni e.e_index > cs.nboot then Some (ni e.e_term, pay_of cs e) else None) es

let abs_of cs (nd : node) : abs =
  let r = nd.nd_raft in
  let l = r.r_log in
  let marker = ni l.l_marker in
  let ents = List.filter (fun e -> ni e.e_index > marker) l.l_ents in
  { a_term = ni r.r_term; a_vote = ni r.r_vote;
    a_role = (match r.r_role with Leader -> 2 | Candidate -> 1 | _ -> 0);
    a_first = ix cs marker; a_fterm = (if marker > cs.nboot then ni l.l_marker_term else 0);
    a_ents = abs_ents cs ents; a_last = ix cs (marker + List.length l.l_ents);
    a_commit = ix cs (ni l.l_committed); a_pending = r.r_pending_cc }

let rec drop n l = if n <= 0 then l else match l with [] -> [] | _ :: r -> drop (n - 1) r
let rec take n l = if n <= 0 then [] else match l with [] -> [] | x :: r -> x :: take (n - 1) r

let ents_match (l2 : (int * int) list) (l1 : (int * int) list) =
  List.length l2 = List.length l1 &&
  List.for_all2 (fun (t2, p2) (t1, p1) -> t2 = t1 && (p1 < 0 || p1 = p2)) l2 l1

let l2ents_int es = List.map (fun e -> (inat e.eterm, inat e.epay)) es

(* does the L2 node equal the abstraction?  returns a description of the first difference *)
let compare_obs (o : l2obs) (y : abs) (applied : int option) : string option =
  let voted = match o.o_voted with None -> 0 | Some v -> inat v in
  let log = l2ents_int o.o_log in
  let fail s = Some s in
  if inat o.o_term <> y.a_term then fail (Printf.sprintf "term L2=%d L1=%d" (inat o.o_term) y.a_term)
  else if voted <> y.a_vote then fail (Printf.sprintf "vote L2=%d L1=%d" voted y.a_vote)
  else if inat o.o_role <> y.a_role then fail (Printf.sprintf "role L2=%d L1=%d" (inat o.o_role) y.a_role)
  else if inat o.o_commit <> y.a_commit then fail (Printf.sprintf "commit L2=%d L1=%d" (inat o.o_commit) y.a_commit)
  else if List.length log <> y.a_last then fail (Printf.sprintf "last-index L2=%d L1=%d" (List.length log) y.a_last)
  else if inat o.o_first <> y.a_first then fail (Printf.sprintf "snapshot-index L2=%d L1=%d" (inat o.o_first) y.a_first)
  else if not (ents_match (drop y.a_first log) y.a_ents) then
    fail (Printf.sprintf "log above %d L2=%s L1=%s" y.a_first
            (join "," (List.map (fun (t, p) -> Printf.sprintf "%d/%d" t p) (drop y.a_first log)))
            (join "," (List.map (fun (t, p) -> Printf.sprintf "%d/%d" t p) y.a_ents)))
  else if y.a_first > 0 && y.a_fterm > 0 && fst (List.nth log (y.a_first - 1)) <> y.a_fterm then
    fail (Printf.sprintf "snapshot-term L2=%d L1=%d" (fst (List.nth log (y.a_first - 1))) y.a_fterm)
  else if y.a_role = 2 && o.o_pending <> y.a_pending then
    fail (Printf.sprintf "pending-config-change L2=%b L1=%b" o.o_pending y.a_pending)
  else match applied with
    | Some a when inat o.o_applied <> a -> fail (Printf.sprintf "applied L2=%d L1=%d" (inat o.o_applied) a)
    | _ -> None

(* ---- messages of the modelled kinds ---- *)

let lt_of cs (m : msg) = if ni m.m_logindex > cs.nboot then ni m.m_logterm else 0

(* the L2 message an L1 outbox message must be found as; None: not a modelled kind (or it
   carries no information after the bootstrap prefix is taken away) *)
type want =
  | WRV of int * int * int * int
  | WVote of int * int * int
  | WAE of int * int * int * int * (int * int) list * int
  | WAck of int * int * int * int
  | WHB of int * int * int * int
  | WIS of int * int * int * int

let want_of cs (m : msg) : want option =
  let t = ni m.m_term and from = ni m.m_from and to_ = ni m.m_to in
  match ni m.m_type with
  | 14 -> Some (WRV (t, from, ix cs (ni m.m_logindex), lt_of cs m))
  | 15 when not m.m_reject -> Some (WVote (t, from, to_))
  | 12 -> Some (WAE (t, from, ix cs (ni m.m_logindex), lt_of cs m, abs_ents cs m.m_entries, ix cs (ni m.m_commit)))
  | 13 when not m.m_reject ->
    let k = ix cs (ni m.m_logindex) in if k = 0 then None else Some (WAck (t, from, to_, k))
  | 17 -> Some (WHB (t, from, to_, ix cs (ni m.m_commit)))
  | 16 ->
    let k = ix cs (ni m.m_snapshot.ss_index) in
    if k = 0 then None else Some (WIS (t, from, k, ni m.m_snapshot.ss_term))
  | _ -> None

let want_text = function
  | WRV (t, c, li, lt) -> Printf.sprintf "RequestVote t=%d cand=%d li=%d lt=%d" t c li lt
  | WVote (t, v, c) -> Printf.sprintf "granted-vote t=%d voter=%d cand=%d" t v c
  | WAE (t, l, p, pt, es, lc) -> Printf.sprintf "Replicate t=%d ldr=%d prev=%d pt=%d ents=%s lc=%d" t l p pt
                                   (join "," (List.map (fun (a, b) -> Printf.sprintf "%d/%d" a b) es)) lc
  | WAck (t, f, l, k) -> Printf.sprintf "ReplicateResp t=%d from=%d ldr=%d idx=%d" t f l k
  | WHB (t, l, j, c) -> Printf.sprintf "Heartbeat t=%d ldr=%d to=%d c=%d" t l j c
  | WIS (t, l, k, st) -> Printf.sprintf "InstallSnapshot t=%d ldr=%d sidx=%d sterm=%d" t l k st

(* search the soup; for a Replicate the matching soup message is returned (its entries carry
   the payloads that a witness does not get) *)
let find_in_soup (s : net4) (w : want) : msg1 option =
  let eq a b = inat a = b in
  match w with
  | WIS (t, l, k, st) ->
    if List.exists (fun (IS (t', l', k', st')) -> eq t' t && eq l' l && eq k' k && eq st' st) (l2_snaps s)
    then Some (RV (O, O, O, O)) else None
  | _ ->
    List.find_opt (fun m ->
      match w, m with
      | WRV (t, c, li, lt), RV (t', c', li', lt') -> eq t' t && eq c' c && eq li' li && eq lt' lt
      | WVote (t, v, c), Vote (t', v', c', _) -> eq t' t && eq v' v && eq c' c
      | WAE (t, l, p, pt, es, lc), AE (t', l', p', pt', es', lc') ->
        eq t' t && eq l' l && eq p' p && eq pt' pt && eq lc' lc && ents_match (l2ents_int es') es
      | WAck (t, f, l, k), Ack (t', f', l', k') -> eq t' t && eq f' f && eq l' l && eq k' k
      | WHB (t, l, j, c), HB (t', l', j', c') -> eq t' t && eq l' l && eq j' j && eq c' c
      | _ -> false) (l2_msgs s)

let soup_msg_of_want (w : want) : msg1 option =
  let e (t, p) = { eterm = nat t; epay = nat (max p 0) } in
  match w with
  | WRV (t, c, li, lt) -> Some (RV (nat t, nat c, nat li, nat lt))
  | WVote (t, v, c) -> Some (Vote (nat t, nat v, nat c, []))
  | WAE (t, l, p, pt, es, lc) -> Some (AE (nat t, nat l, nat p, nat pt, List.map e es, nat lc))
  | WAck (t, f, l, k) -> Some (Ack (nat t, nat f, nat l, nat k))
  | WHB (t, l, j, c) -> Some (HB (nat t, nat l, nat j, nat c))
  | WIS _ -> None

(* ---- resynchronisation (NOT a model step; counted) ---- *)

let resync cs (i : int) (rp : rep) (post : node) (mapp : int) (new_msgs : msg list) (kind : string) (opname : string) =
  let y = abs_of cs post in
  let o = l2_obs cs.l2 (nat i) in
  let old = l2ents_int o.o_log in
  let prefix =
    let p = take y.a_first old in
    let p = p @ List.init (max 0 (y.a_first - List.length p)) (fun _ -> (max y.a_fterm 1, 0)) in
    if y.a_first > 0 && y.a_fterm > 0 then take (y.a_first - 1) p @ [ (y.a_fterm, snd (List.nth p (y.a_first - 1))) ] else p in
  let log = List.map (fun (t, p) -> { eterm = nat t; epay = nat (max p 0) }) (prefix @ y.a_ents) in
  let o' = { o_term = nat y.a_term; o_voted = (if y.a_vote = 0 then None else Some (nat y.a_vote));
             o_role = nat y.a_role; o_log = log; o_commit = nat y.a_commit;
             o_applied = nat (min (ix cs mapp) y.a_commit); o_pending = y.a_pending; o_first = nat y.a_first } in
  cs.l2 <- resync_node cs.l2 (nat i) o';
  List.iter (fun m ->
    match (try want_of cs m with Unmodelled _ -> None) with
    | None -> ()
    | Some w ->
      if find_in_soup cs.l2 w = None then
        (match w with
         | WIS (t, l, k, st) -> cs.l2 <- resync_snap cs.l2 (IS (nat t, nat l, nat k, nat st))
         | _ -> (match soup_msg_of_want w with Some sm -> cs.l2 <- resync_msg cs.l2 sm | None -> ()))) new_msgs;
  rp.live <- true;
  cs.resyncs <- cs.resyncs + 1;
  cs.resync_kinds <- (kind, 1) :: cs.resync_kinds;
  bump stat_resync (opname ^ ":" ^ kind) 1

(* ---- the explainer ---- *)

let voting_set (nd : node) : int list = List.sort compare (List.map ni (voting_ids nd.nd_raft))

let explain cs (i : int) (rp : rep) (b : bufop) : unit =
  let post = b.b_post in
  let y = abs_of cs post in
  let npre = match b.b_pre with Some p when b.b_name <> "U" -> List.length p.nd_raft.r_msgs | _ -> 0 in
  let new_msgs = if b.b_name = "U" || b.b_name = "RESTART" then [] else drop npre post.nd_raft.r_msgs in
  let inmsg = if b.b_name = "M" then Some (parse_msg b.b_f.(2)) else None in
  let ii = nat i in
  let stepf = step_fn4_sim cs.c0 in
  let wants = List.filter_map (fun m -> match want_of cs m with Some w -> Some (m, w) | None -> None) new_msgs in
  let resp_to (m : msg) ty = List.exists (fun (x : msg) -> ni x.m_type = ty && x.m_to = m.m_from && not x.m_reject) new_msgs in
  (* one attempt; [use_handle]: explain the input message by its Handle label *)
  let attempt (use_handle : bool) : net4 * label4 list =
    let s = ref cs.l2 and ls = ref [] in
    let cur () = l2_obs !s ii in
    let try_label l = match stepf !s l with Some s' -> s := s'; ls := l :: !ls; true | None -> false in
    let must l = if not (try_label l) then raise (Stuck (label_text l)) in
    (* applied entries (membership takes effect in L2 when applied) *)
    let target_applied = ix cs b.b_mapp in
    if b.b_name = "RESTART" then begin
      let x = cur () in
      let a = min (min (ix cs (ni post.nd_raft.r_log.l_marker)) (inat x.o_applied)) y.a_commit in
      (* L3Crash i c m a keeps the first m entries; every m >= the length of the log is the plain
         restart, and m must cover every acknowledgement the replica ever sent (also those for
         entries that a later leader has overwritten since) *)
      let m =
        if y.a_last < List.length x.o_log then y.a_last
        else List.fold_left (fun acc sm -> match sm with
            | Ack (_, v, _, k) when inat v = i -> max acc (inat k) | _ -> acc) y.a_last (l2_msgs !s) in
      must (L4Base (L3Crash (ii, nat y.a_commit, nat m, nat a)))
    end;
    while inat (cur ()).o_applied < target_applied do
      (* an apply event for an entry the replica has not committed is not something the
         simulator's apply loop produces (it applies what an Update handed out) *)
      if inat (cur ()).o_applied >= inat (cur ()).o_commit then raise (Unmodelled "apply-event-beyond-commit");
      must (L4Base (L3Apply ii))
    done;
    (* term *)
    let x = cur () in
    if y.a_term > inat x.o_term then begin
      if y.a_vote = i && (y.a_role = 1 || y.a_role = 2) then begin
        if y.a_term - 1 > inat x.o_term then must (base (LHigherTerm (ii, nat (y.a_term - 1))));
        must (base (LTimeout ii))
      end else must (base (LHigherTerm (ii, nat y.a_term)))
    end;
    (* the input message *)
    (match inmsg with
     | Some m when use_handle && ni m.m_term = y.a_term ->
       (match ni m.m_type with
        | 14 when resp_to m 15 ->
          must (base (LHandleRV (ii, nat (ni m.m_term), nat (ni m.m_from), nat (ix cs (ni m.m_logindex)), nat (lt_of cs m))))
        | 12 when resp_to m 13 ->
          (match want_of cs m with
           | Some w ->
             (match find_in_soup !s w with
              | Some (AE (t, l, p, pt, es, lc)) -> must (base (LHandleAE (ii, t, l, p, pt, es, lc)))
              | _ -> raise (Unmodelled "handled-message-not-in-soup"))
           | None -> ())
        | 17 when List.exists (fun (x : msg) -> ni x.m_type = 18 && x.m_to = m.m_from) new_msgs ->
          (match want_of cs m with
           | Some (WHB (t, l, j, c) as w) ->
             if find_in_soup !s w = None then raise (Unmodelled "handled-message-not-in-soup");
             must (base (LHandleHB (nat j, nat t, nat l, nat c)))
           | _ -> ())
        | 16 when resp_to m 13 ->
          (match want_of cs m with
           | Some (WIS (t, l, k, st) as w) ->
             if find_in_soup !s w = None then raise (Unmodelled "handled-message-not-in-soup");
             must (L4HandleIS (ii, nat t, nat l, nat k, nat st))
           | _ -> ())
        | _ -> ())
     | _ -> ());
    (* role *)
    let x = cur () in
    (match inat x.o_role, y.a_role with
     | (1 | 2), 0 -> must (base (LStepDown ii))
     | 1, 2 -> must (base (LBecomeLeader ii))
     | _ -> ());
    (* entries appended by a leader *)
    let x = cur () in
    if y.a_role = 2 && y.a_last > List.length x.o_log then begin
      let have = List.length x.o_log - y.a_first in
      if have < 0 then raise (Differs "leader log shorter than its snapshot index");
      List.iter (fun (t, p) ->
        if t <> y.a_term || p < 0 then raise (Differs "leader appended an entry of another term");
        must (base (LPropose (ii, nat p)))) (drop have y.a_ents)
    end;
    (* commit index advanced by a leader *)
    let x = cur () in
    if y.a_role = 2 && y.a_commit > inat x.o_commit then begin
      let l = base (LAdvanceCommit (ii, nat y.a_commit)) in
      if not (try_label l) then begin must (base (LSelfAck ii)); must l end
    end;
    (* messages sent *)
    List.iter (fun ((m : msg), w) ->
      match w with
      | WAE (_, _, p, _, es, lc) -> must (base (LSendAE (ii, nat p, nat (List.length es), nat lc)))
      | WHB (_, _, j, c) -> must (base (LSendHB (ii, nat j, nat c)))
      | WIS (_, _, k, _) -> must (L4SendIS (ii, nat k))
      | _ -> ()) wants;
    (* an acknowledgement of the replica's commit index that nothing above produced: the
       answer to an InstallSnapshot that lies inside the bootstrap prefix (no L2 message).
       It is the answer to any stale Replicate of the same leader, which stays deliverable *)
    List.iter (fun (_, w) ->
      match w with
      | WAck (t, _, l, k) when find_in_soup !s w = None && k = inat (cur ()).o_commit ->
        (match List.find_opt (fun sm -> match sm with
             | AE (t', l', p', _, _, _) -> inat t' = t && inat l' = l && inat p' < k | _ -> false) (l2_msgs !s) with
         | Some (AE (t', l', p', pt', es', lc')) -> ignore (try_label (base (LHandleAE (ii, t', l', p', pt', es', lc'))))
         | _ -> ())
      | _ -> ()) wants;
    (* compaction *)
    let x = cur () in
    if y.a_first > inat x.o_first then must (L4Compact (ii, nat y.a_first));
    (* the result *)
    (match compare_obs (cur ()) y (Some target_applied) with
     | Some d -> raise (Differs d)
     | None -> ());
    List.iter (fun (_, w) ->
      if find_in_soup !s w = None then raise (Differs ("message not in the L2 soup: " ^ want_text w))) wants;
    (!s, List.rev !ls) in
  let accept (s, ls) =
    cs.l2 <- s;
    cs.labels <- cs.labels + List.length ls;
    List.iter (fun l -> bump stat_labels (label_name l) 1) ls;
    bump stat_expl b.b_name 1;
    if ls <> [] then bump stat_nonempty b.b_name 1;
    if debug then Printf.eprintf "  op %d %s node %d: %s\n" b.b_k b.b_name i (join " ; " (List.map label_text ls)) in
  let why = ref "" in
  let ok =
    List.exists (fun uh ->
      try accept (attempt uh); true
      with Stuck l -> (if !why = "" then why := "label not enabled: " ^ l); false
         | Differs d -> (if !why = "" then why := d); false)
      (if inmsg <> None then [true; false] else [false]) in
  if not ok then begin
    match rp.taint with
    | Some k -> resync cs i rp post b.b_mapp new_msgs k b.b_name
    | None -> raise (Differs !why)
  end

(* membership of the L1 replica against the configuration of the L2 node *)
let check_membership cs (i : int) (rp : rep) (b : bufop) =
  if rp.taint = None && rp.live && b.b_memb then begin
    let l1 = voting_set b.b_post in
    let l2 = List.sort compare (List.map inat (l2_cfg cs.c0 cs.l2 (nat i))) in
    if l1 <> l2 then begin
      rp.taint <- Some "membership-not-the-function-of-the-applied-log";
      bump stat_taint "membership-not-the-function-of-the-applied-log" 1;
      if debug then Printf.eprintf "  op %d %s node %d: membership L1=%s L2=%s\n" b.b_k b.b_name i
          (join "+" (List.map string_of_int l1)) (join "+" (List.map string_of_int l2))
    end
  end

let run_case (cid : string) (hdr : string) (body : string) =
  let et = n_of_string (header_val hdr "et") and ht = n_of_string (header_val hdr "ht") in
  let cq = header_val hdr "cq" = "1" and pv = header_val hdr "pv" = "1" in
  let nodes : (string, node) Hashtbl.t = Hashtbl.create 8 in
  let cs = { nboot = 0; c0 = []; c0_set = false; l2 = l2_init; labels = 0; resyncs = 0; resync_kinds = [];
             fail = None; intern = Hashtbl.create 64; reps = Hashtbl.create 8 } in
  let stop = ref false in
  let steps = ref 0 in
  let giveup = ref None in
  (* explanation of one buffered operation, with the failure policy *)
  let explain_op (i : int) (rp : rep) (b : bufop) =
    if cs.fail = None && !giveup = None then begin
      let new_msgs = match b.b_pre with
        | Some p when b.b_name <> "U" && b.b_name <> "RESTART" -> drop (List.length p.nd_raft.r_msgs) b.b_post.nd_raft.r_msgs
        | None -> b.b_post.nd_raft.r_msgs
        | _ -> [] in
      (try
         if not rp.live then raise (Unmodelled "replica-not-in-sync");
         explain cs i rp b
       with
       | Unmodelled k -> resync cs i rp b.b_post b.b_mapp new_msgs k b.b_name
       | Differs d ->
         cs.fail <- Some (Printf.sprintf "op=%d %s replica=%d %s" b.b_k b.b_name i d));
      if cs.fail = None then begin
        match b.b_name with
        | "ACC" | "RCC" | "NLA" | "RR" | "RESTART" | "START" -> check_membership cs i rp b
        | _ -> ()
      end
    end in
  let flush (i : int) (rp : rep) =
    let ops = List.rev rp.buf in
    rp.buf <- [];
    List.iter (explain_op i rp) ops in
  List.iteri (fun k opt ->
    if not !stop then begin
      let (op, rt) = split_op opt in
      if op <> "" then begin
        let f = Array.of_list (split_ws op) in
        let id = f.(1) in
        let nv i = n_of_string f.(i) in
        let with_oracle nd = { nd with nd_raft = { nd.nd_raft with r_oracle = rt } } in
        let upd = ref None in
        let pre = Hashtbl.find_opt nodes id in
        let result : node option =
          (match f.(0) with
           | "START" ->
             let init = split_ids f.(3) in
             let cmds = if f.(4) = "-" then [] else List.map bytes_of_hex (split_on ',' f.(4)) in
             Some (launch (n_of_string id) (kind_of f.(2)) et ht cq pv init cmds rt)
           | name ->
             (match pre with
              | None -> None
              | Some nd0 ->
                let nd = with_oracle nd0 in
                let onr g = Some (on_raft g nd) in
                (match name with
                 | "RESTART" -> Some (node_restart nd rt)
                 | "T" -> onr peer_tick
                 | "Q" -> onr peer_quiesced_tick
                 | "M" -> let m = parse_msg f.(2) in onr (fun r -> peer_handle r m)
                 | "P" -> onr (fun r -> peer_propose r
                            [{ e_term = N0; e_index = N0; e_type = N0; e_key = nv 2; e_client = nv 3;
                               e_series = nv 4; e_resp = N0; e_cmd = bytes_of_hex f.(5) }])
                 | "CC" -> onr (fun r -> peer_propose_cc r (nv 2) (bytes_of_hex f.(5)))
                 | "ACC" -> onr (fun r -> peer_apply_cc r (nv 2) (nv 3))
                 | "RCC" -> onr peer_reject_cc
                 | "NLA" -> onr (fun r -> { r with r_applied = nv 2 })
                 | "R" -> onr (fun r -> peer_read_index r (nv 2, nv 3))
                 | "LT" -> onr (fun r -> peer_leader_transfer r (nv 2))
                 | "UN" -> onr (fun r -> peer_unreachable r (nv 2))
                 | "SS" -> onr (fun r -> peer_snapshot_status r (nv 2) (f.(3) = "1"))
                 | "RR" -> let s = parse_snapshot f.(2) in onr (fun r -> peer_restore_remotes r s)
                 | "SNAP" -> Some (node_snapshot nd (parse_snapshot f.(2)) (nv 3))
                 | "U" -> let (nd', u) = node_update nd (f.(2) = "1") (nv 3) in upd := Some u; Some nd'
                 | _ -> None))) in
        incr steps;
        (match result with
         | None -> Printf.printf "%s %d PANIC\n" cid k; stop := true
         | Some nd ->
           if nd.nd_raft.r_panic then begin Printf.printf "%s %d PANIC\n" cid k; stop := true end
           else begin
             Hashtbl.replace nodes id nd;
             Printf.printf "%s %d %s %s%s\n" cid k f.(0) (project nd.nd_raft)
               (match !upd with Some u -> fmt_update u | None -> "");
             (* ---- the inclusion check ---- *)
             if cs.fail = None && !giveup = None then begin
               try
                 let i = int_of_string id in
                 let name = f.(0) in
                 let rp =
                   match Hashtbl.find_opt cs.reps id with
                   | Some rp when name <> "START" -> rp
                   | Some rp ->
                     (* a replica started again under an id that is in use: its durable state is
                        gone, which no fault of the model covers *)
                     rp.buf <- []; rp.live <- false; rp.taint <- Some "replica-recreated-without-its-data";
                     rp.acur <- 0; rp.mapp <- 0; rp
                   | None ->
                     let rp = { nd; initial = false; acur = 0; mapp = 0; buf = []; taint = None; live = true } in
                     Hashtbl.replace cs.reps id rp; rp in
                 rp.nd <- nd;
                 (* what the membership of the replica reflects *)
                 let l = nd.nd_raft.r_log in
                 (match name with
                  | "START" ->
                    let init = split_ids f.(3) in
                    if init <> [] then begin
                      let c0 = List.map (fun x -> nat (ni x)) init in
                      if List.length (List.sort_uniq compare (List.map ni init)) <> List.length init then
                        giveup := Some "bootstrap-members-not-distinct";
                      if cs.c0_set && c0 <> cs.c0 then giveup := Some "two-bootstrap-memberships"
                      else if not cs.c0_set then begin
                        if Hashtbl.length cs.reps > 1 then giveup := Some "replica-started-before-bootstrap"
                        else begin cs.c0 <- c0; cs.c0_set <- true; cs.nboot <- List.length init end
                      end;
                      rp.initial <- true; rp.mapp <- List.length init; rp.acur <- 0
                    end
                  | "RESTART" ->
                    (* the membership is reloaded from the snapshot; without a snapshot that covers
                       the bootstrap entries the replica rebuilds it by applying them again, like a
                       replica that joins *)
                    rp.acur <- ni l.l_marker; rp.mapp <- ni l.l_marker; rp.initial <- false
                  | "RR" ->
                    let s = parse_snapshot f.(2) in
                    rp.acur <- max rp.acur (ni s.ss_index); rp.mapp <- max rp.mapp rp.acur
                  | "NLA" ->
                    rp.acur <- max rp.acur (ni (nv 2)); rp.mapp <- max rp.mapp rp.acur
                  | "ACC" | "RCC" ->
                    (* the config change entry this event is about: the first one above acur *)
                    (match List.find_opt (fun (e : entry) -> ni e.e_index > rp.acur && ni e.e_type = 1) l.l_ents with
                     | Some e when ni e.e_index <= ni l.l_committed ->
                       (match name, decode_cc e.e_cmd with
                        | "ACC", Some (ty, rid) when ty <> ni (nv 2) || rid <> ni (nv 3) ->
                          rp.taint <- Some "config-change-event-without-its-entry";
                          bump stat_taint "config-change-event-without-its-entry" 1
                        | _ -> ());
                       rp.acur <- ni e.e_index; rp.mapp <- max rp.mapp rp.acur
                     | _ -> rp.taint <- Some "config-change-event-without-its-entry";
                       bump stat_taint "config-change-event-without-its-entry" 1)
                  | _ -> ());
                 let b = { b_k = k; b_name = name; b_f = f; b_pre = (if name = "START" then None else pre);
                           b_post = nd; b_mapp = rp.mapp; b_memb = rp.initial || rp.acur >= cs.nboot } in
                 (match name with
                  | "U" -> flush i rp; explain_op i rp b
                  | "RESTART" ->
                    (* what happened after the last Update is lost in L1 and never happened in L2; a
                       snapshot taken since then is durable: the restarted replica starts at its index,
                       which is a compaction step after the crash step *)
                    List.iter (fun (o : bufop) -> bump stat_expl ("lost:" ^ o.b_name) 1) rp.buf;
                    rp.buf <- []; explain_op i rp b
                  | _ -> rp.buf <- b :: rp.buf)
               with
               | Unmodelled kd -> giveup := Some kd
               | Failure kd -> giveup := Some ("driver:" ^ kd)
             end
           end)
      end
    end) (split_ops body);
  (* the steps not yet followed by an Update are steps of L2 as well *)
  if cs.fail = None && !giveup = None then begin
    let ids = List.sort compare (Hashtbl.fold (fun id _ acc -> id :: acc) cs.reps []) in
    List.iter (fun id ->
      try flush (int_of_string id) (Hashtbl.find cs.reps id)
      with Unmodelled kd -> giveup := Some kd) ids
  end;
  (match cs.fail with
   | Some w -> Printf.printf "%s incl=FAIL %s\n" cid w
   | None ->
     let kinds = List.sort_uniq compare (List.map fst cs.resync_kinds) in
     Printf.printf "%s incl=ok steps=%d labels=%d resync=%d%s%s\n" cid !steps cs.labels cs.resyncs
       (match !giveup with Some g -> (bump stat_resync ("case:" ^ g) 1; " giveup=" ^ g) | None -> "")
       (if kinds = [] then "" else " kinds=" ^ join "," kinds))

let () =
  iter_lines (fun line ->
    match Str.bounded_split (Str.regexp_string " | ") line 2 with
    | [head; body] ->
      let cid, hdr = (match Str.bounded_split (Str.regexp " ") head 2 with [a; b] -> (a, b) | _ -> (head, "")) in
      run_case cid hdr body
    | _ -> ());
  let dump name h =
    let l = List.sort compare (Hashtbl.fold (fun k v acc -> (k, v) :: acc) h []) in
    Printf.eprintf "R02 %s: %s\n" name (join " " (List.map (fun (k, v) -> Printf.sprintf "%s=%d" k v) l)) in
  dump "explained" stat_expl; dump "resync" stat_resync; dump "labels" stat_labels; dump "tainted" stat_taint;
  dump "nonempty" stat_nonempty
