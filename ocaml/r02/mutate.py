#!/usr/bin/env python3
"""Non-vacuity test of the R02 inclusion checker (not part of bin/check).

usage: ocaml/r02/mutate.py CASES.txt [CASES.txt ...]

Each mutation patches a scratch copy (under /tmp/r02-mut) of the EXTRACTED L1 model
ocaml/r02/model.ml with one protocol-breaking change, rebuilds the driver and runs it on
the given cases files (e.g. .work/R02/cases.txt kept with VERIF_KEEP=1, or corpus/R02/*.txt).
The schedules were recorded on the real code, so the mutated L1 run is a run of a broken
implementation on the same inputs; the checker must print incl=FAIL for some case."""
import sys, os, subprocess, shutil
SRC = os.path.dirname(os.path.abspath(__file__))
MUTS = {
 'second_vote_in_a_term': ("let can_grant_vote r m =\n  gen_canGrantVote m.m_from m.m_term r.r_term r.r_vote", "let can_grant_vote r m =\n  true"),
 'commit_without_quorum': ("let q = nth (N.to_nat (N.sub (num_voting r) (quorum r))) ms N0 in", "let q = nth (N.to_nat (N.sub (num_voting r) (Npos XH))) ms N0 in"),
 'append_without_prev_match': ("let match_term l i t =\n  N.eqb (log_term l i) t", "let match_term l i t =\n  true"),
 'commit_old_term_entries_by_counting': ("  else if N.eqb (log_term l i) t\n       then (match log_commit_to l i with", "  else if true\n       then (match log_commit_to l i with"),
 'vote_without_up_to_date_check': ("if (&&) (can_grant_vote r m) (up_to_date r.r_log m.m_logindex m.m_logterm)", "if (&&) (can_grant_vote r m) true"),
 'campaign_with_unapplied_entries': ("let has_config_change_to_apply r =\n  gen_hasConfigChangeToApply r.r_applied r.r_log.l_committed", "let has_config_change_to_apply r =\n  false"),
 'leader_with_one_vote_less': ("       if N.eqb count (quorum r1)\n       then broadcast_replicate (become_leader r1)", "       if N.eqb (N.add count (Npos XH)) (quorum r1)\n       then broadcast_replicate (become_leader r1)"),
 'second_config_change_while_pending': ("    then if r.r_pending_cc\n         then propose_scan", "    then if false\n         then propose_scan"),
 'heartbeat_commit_not_bounded_by_match': ("          N.min mt r.r_log.l_committed)", "          r.r_log.l_committed)"),
 'restart_forgets_vote': ("      s.ss_witnesses nd.nd_dstate oracle", "      s.ss_witnesses (match nd.nd_dstate with Some ((t, v), c) -> Some ((t, N0), c) | None -> None) oracle"),
}
cases = sys.argv[1:]
if not cases:
    print(__doc__); sys.exit(2)
for name, (a, b) in MUTS.items():
    d = '/tmp/r02-mut/' + name
    shutil.rmtree(d, ignore_errors=True); os.makedirs(d)
    for f in ('model.ml', 'model.mli', 'util.ml', 'driver.ml'):
        shutil.copy(os.path.join(SRC, f), d)
    s = open(d + '/model.ml').read()
    if s.count(a) < 1:
        print("%-40s pattern not found in model.ml (the L1 model changed)" % name); continue
    open(d + '/model.ml', 'w').write(s.replace(a, b, 1))
    r = subprocess.run("ocamlfind ocamlopt -w -a -package str -linkpkg model.mli model.ml util.ml driver.ml -o driver",
                       shell=True, cwd=d, capture_output=True, text=True)
    if r.returncode != 0:
        print(name, 'BUILD FAILED', r.stderr[:300]); continue
    ok = fail = 0; first = None
    for c in cases:
        out = subprocess.run(d + '/driver', stdin=open(c), capture_output=True, text=True).stdout
        for line in out.splitlines():
            t = line.split(' ', 2)
            if len(t) > 1 and t[1] == 'incl=ok': ok += 1
            elif len(t) > 1 and t[1] == 'incl=FAIL':
                fail += 1
                if first is None: first = line[:200]
    print("%-40s incl=ok %d  incl=FAIL %d   e.g. %s" % (name, ok, fail, first))
shutil.rmtree('/tmp/r02-mut', ignore_errors=True)
