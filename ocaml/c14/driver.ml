(* C14 model driver: same cases as harness/cmd/c14, observations from the extracted model *)
open Model
open Util

(* a nat built without deep recursion (block size 2 MB) *)
let nat_big (i : int) : nat =
  let rec go acc i = if i = 0 then acc else go (S acc) (i - 1) in go O i

let ints_of (s : string) : int list =
  if s = "-" then [] else List.map int_of_string (String.split_on_char ',' s)

let hexs l = hex_of_bytes l
let sn x = string_of_n x

let real_bs_int = int_of_n block_size
let real_bs = lazy (nat_big real_bs_int)

(* ---------- canonical header (time stamp and checksums masked) ---------- *)
let rec list_take k l = if k <= 0 then [] else match l with [] -> [] | x :: r -> x :: list_take (k - 1) r
let rec list_drop k l = if k <= 0 then l else match l with [] -> [] | _ :: r -> list_drop (k - 1) r
let all_zero l = List.for_all (fun x -> x = N0) l

let canon_header (blk : n list) : string =
  let raw () = "RAW:" ^ hexs blk in
  if List.length blk <> 1024 then raw () else
  let sz = int_of_n (le_dec (list_take 8 blk)) in
  if sz > 1012 || sz < 20 then raw () else
  let data = list_take sz (list_drop 8 blk) in
  let crc = list_take 4 (list_drop (8 + sz) blk) in
  let pad = list_drop (12 + sz) blk in
  let pre = list_take 5 data in
  if hexs pre <> "0800100018" then raw () else
  let rec vlen l k = match l with [] -> k | b :: r -> if int_of_n b < 128 then k + 1 else vlen r (k + 1) in
  let tl = vlen (list_drop 5 data) 0 in
  let mid = list_take 4 (list_drop (5 + tl) data) in
  if hexs mid <> "22002a04" then raw () else
  let hcrc = list_take 4 (list_drop (9 + tl) data) in
  let post = list_drop (13 + tl) data in
  let without = list_take (7 + tl) data @ post in
  let hok = if hexs (crc_bytes without) = hexs hcrc then "1" else "0" in
  let cok = if hexs (crc_bytes data) = hexs crc then "1" else "0:" ^ hexs crc in
  Printf.sprintf "len:%d:%sT%sH%s%s|C%s|Z%s" (sz - tl) (hexs pre) (hexs mid) hok (hexs post) cok
    (if all_zero pad then "1" else "0")

(* ---------- read sessions ---------- *)
let header_str (h : header) =
  Printf.sprintf "OK(%s,%s,%s,%s)" (sn h.h_ver) (sn h.h_ctype) (sn h.h_comp)
    (match h.h_pcrc with Some c -> hexs c | None -> "nil")

let session_str (bs : nat) (f : n list) (reads : int list) : string =
  match read_session bs f (List.map nat_of_int reads) with
  | SessErr -> "E"
  | SessPanic -> "P"
  | Sess (h, obs, closed_ok) ->
    let b = Buffer.create 64 in
    Buffer.add_string b (header_str h);
    let panicked = ref false in
    List.iter (fun o -> match o with
      | OData d -> Buffer.add_string b (",D" ^ hexs d)
      | OEof d -> Buffer.add_string b (",E" ^ hexs d)
      | OPanic -> panicked := true; Buffer.add_string b ",P") obs;
    if not !panicked then Buffer.add_string b (if closed_ok then ",x" else ",X");
    Buffer.contents b

(* split into chunks of the given sizes; the remainder (if any) is a last chunk *)
let split_chunks (f : n list) (sizes : int list) : n list list =
  let rec go f sizes acc = match sizes with
    | [] -> if f = [] then List.rev acc else List.rev (f :: acc)
    | s :: r -> if f = [] then List.rev acc else go (list_drop s f) r (list_take s f :: acc) in
  go f sizes []

let verdict_str (bs : nat) (f : n list) (sizes : int list) : string =
  match validate_stream bs (split_chunks f sizes) with
  | Accept -> "A" | Reject -> "R" | Panic -> "P"

let flip (f : n list) (bit : int) : n list option =
  if bit < 0 || bit >= 8 * List.length f then None else Some (flip_bit f (nat_of_int bit))

let shrunk_str bs f = match is_shrunk bs f with
  | ShrErr -> "E" | ShrPanic -> "P" | ShrOk true -> "1" | ShrOk false -> "0"

(* ---------- BW ---------- *)
let run_bw id bsi ops =
  let bs = nat_of_int bsi in
  let st = ref (bw_init bs) in
  let out = ref None in
  let rd = ref None in
  let mk_reader o =
    let l = List.length o in
    rd := Some { br_rest = list_take (l - 16) o; br_block = [] } in
  let toks = List.map (fun op ->
    match split_ws op with
    | ["w"; h] -> (match bw_write bs !st (bytes_of_hex h) with
        | Some s -> st := s; "w" | None -> "wP")
    | ["c"] -> (match bw_close !st with
        | Some s -> st := s; let o = out_bytes s.bw_out in out := Some o; mk_reader o;
          "c:" ^ hexs o ^ ":" ^ hexs (bw_payload_checksum s)
        | None -> "cP")
    | ["r"; k] -> (match !rd with
        | None -> "-"
        | Some r -> (match br_read bs checksum_crc32ieee r (nat_of_int (int_of_string k)) with
            | (r', RData d) -> rd := Some r'; "D" ^ hexs d
            | (r', REof d) -> rd := Some r'; "E" ^ hexs d
            | (_, RPanic) -> rd := None; "P"))
    | ["f"; b] -> (match !out with
        | None -> "-"
        | Some o -> (match flip o (int_of_string b) with
            | None -> "-" | Some o' -> out := Some o'; mk_reader o'; "f"))
    | ["t"; k] -> (match !out with
        | None -> "-"
        | Some o -> let k = int_of_string k in
          if k > List.length o then "-" else (let o' = list_take k o in out := Some o'; mk_reader o'; "t"))
    | _ -> "?") ops in
  Printf.printf "%s BW %s\n" id (String.concat " " toks)

(* ---------- SW ---------- *)
let model_ts = n_of_string "4611686018427387904"   (* 2^62: a 9 byte varint like a real UnixNano *)

let run_sw id ver comp reads sizes ops =
  let segs = List.filter_map (fun op -> match split_ws op with ["w"; h] -> Some (bytes_of_hex h) | _ -> None) ops in
  let bs = Lazy.force real_bs in
  let total = List.fold_left (fun a s -> a + List.length s) 0 segs in
  let res = if ver = 2 then write_file_v2 bs model_ts (n_of_int comp) segs
            else write_file_v1 model_ts (n_of_int comp) segs in
  match res with
  | WPanic -> Printf.printf "%s SW P\n" id
  | WOk (f, pcrc) ->
    let psize = if ver = 2 then v2_payload_size block_size (n_of_int total) else n_of_int total in
    let fsum =
      match crc_offsets block_size (nlen f) with
      | None -> "E"
      | Some _ ->
        if ver = 2 then (match file_payload_checksum block_size f with Some c -> hexs c | None -> "E")
        else (match sr_open f with SOpenOk (_, r) -> if sr_close r then "E" else "P" | _ -> "E") in
    Printf.printf "%s SW hdr=%s body=%s pcrc=%s psize=%s fsize=%d fsum=%s rd=%s v=%s\n" id
      (canon_header (list_take 1024 f)) (hexs (list_drop 1024 f)) (hexs pcrc) (sn psize)
      (List.length f) fsum (session_str bs f reads) (verdict_str bs f sizes)

(* ---------- RF ---------- *)
let run_rf id ops =
  let bs = Lazy.force real_bs in
  let file = ref None in
  let toks = List.map (fun op ->
    match split_ws op, !file with
    | ["file"; h], _ -> file := Some (bytes_of_hex h); "file"
    | _, None -> "-"
    | ["rs"; rs], Some f -> "rs:" ^ session_str bs f (ints_of rs)
    | ["vs"; ss], Some f -> "vs:" ^ verdict_str bs f (ints_of ss)
    | ["fo"; b; k], Some f -> (match flip f (int_of_string b) with
        | None -> "-" | Some f' -> "fo:" ^ session_str bs f' [int_of_string k; 1])
    | ["fx"; b; rs], Some f -> (match flip f (int_of_string b) with
        | None -> "-" | Some f' -> "fx:" ^ session_str bs f' (ints_of rs))
    | ["fv"; b; ss], Some f -> (match flip f (int_of_string b) with
        | None -> "-" | Some f' -> "fv:" ^ verdict_str bs f' (ints_of ss))
    | ["to"; l; k], Some f -> let l = int_of_string l in
        if l > List.length f then "-" else "to:" ^ session_str bs (list_take l f) [int_of_string k; 1]
    | ["tv"; l; ss], Some f -> let l = int_of_string l in
        if l > List.length f then "-" else "tv:" ^ verdict_str bs (list_take l f) (ints_of ss)
    | ["sh"], Some f -> "sh:" ^ shrunk_str bs f
    | ["sk"], Some f -> (match shrink bs model_ts f with
        | ShrinkErr -> "sk:E" | ShrinkPanic -> "sk:P"
        | ShrinkOk nf -> Printf.sprintf "sk:%s:%s:%s:%s" (canon_header (list_take 1024 nf))
            (hexs (list_drop 1024 nf)) (shrunk_str bs nf) (session_str bs nf [16; 1]))
    | _ -> "?") ops in
  Printf.printf "%s RF %s\n" id (String.concat " " toks)

let split_ops (s : string) : string list =
  List.filter (fun x -> String.trim x <> "") (Str.split (Str.regexp_string " ; ") s)

let () =
  iter_lines (fun line ->
    if String.trim line <> "" then begin
      let head, body =
        match Str.bounded_split_delim (Str.regexp_string " | ") line 2 with
        | [h; b] -> h, b
        | [h] -> (if Filename.check_suffix h " |" then String.sub h 0 (String.length h - 2) else h), ""
        | _ -> line, "" in
      let ops = split_ops body in
      match split_ws head with
      | [id; "BW"; bs] -> run_bw id (int_of_string bs) ops
      | [id; "SW"; ver; comp; reads; sizes] ->
        run_sw id (int_of_string ver) (int_of_string comp) (ints_of reads) (ints_of sizes) ops
      | [id; "RF"] -> run_rf id ops
      | [id; "PV"] ->
        let files = List.filter_map (fun op -> match split_ws op with
          | ["f"; hp; rc; act] ->
            Some ((hp = "1", n_of_string rc), (if act = "-" then None else Some (n_of_string act)))
          | _ -> None) ops in
        Printf.printf "%s PV %s\n" id
          (match snapshot_validate files with PvTrue -> "T" | PvFalse -> "F" | PvPanic -> "P")
      | id :: "CZ" :: _ -> Printf.printf "%s CZ\n" id
      | id :: "BG" :: _ -> Printf.printf "%s BG\n" id
      | id :: "VS" :: _ -> Printf.printf "%s VS\n" id
      | id :: _ -> Printf.printf "%s ? unparsed\n" id
      | [] -> ()
    end)
