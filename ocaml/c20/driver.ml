(* C20 model driver: runs the extracted model of tools/import.go
   (Model/ImportTool.v) on the cases of harness/cmd/c20 and prints what the
   harness prints for the real code. Formats: see harness/cmd/c20/main.go. *)
open Model
open Util

let show_map (m : amap) : string =
  "[" ^ String.concat "," (List.map (fun (k, a) -> string_of_n k ^ ":" ^ hex_of_bytes a) (mnorm m)) ^ "]"
let show_set (l : n list) : string =
  "[" ^ String.concat "," (List.map string_of_n (sadd_all l [])) ^ "]"

let parse_map (s : string) : amap =
  if s = "-" || s = "" then [] else
    List.map (fun kv ->
        match String.index_opt kv ':' with
        | Some i ->
          (n_of_string (String.sub kv 0 i),
           bytes_of_hex (String.sub kv (i + 1) (String.length kv - i - 1)))
        | None -> failwith "bad map") (String.split_on_char ',' s)
let parse_set (s : string) : n list =
  if s = "-" || s = "" then [] else List.map n_of_string (String.split_on_char ',' s)

let fields (s : string) : (string * string) list =
  List.filter_map (fun f ->
      match String.index_opt f '=' with
      | Some i -> Some (String.sub f 0 i, String.sub f (i + 1) (String.length f - i - 1))
      | None -> None) (split_ws s)
let get f k = try List.assoc k f with Not_found -> ""
let getn f k = n_of_string (get f k)
let b01 b = if b then 1 else 0

let bytes_of_string (s : string) : n list =
  List.init (String.length s) (fun i -> n_of_int (Char.code s.[i]))

let show_record (ss : snapshot) : string =
  let m = ss.s_membership in
  let files = List.map (fun f ->
      Printf.sprintf "%s/%s/%s/%s" (hex_of_bytes f.sf_path) (string_of_n f.sf_size)
        (string_of_n f.sf_id) (hex_of_bytes f.sf_meta)) ss.s_files in
  Printf.sprintf "ccid=%s a=%s n=%s w=%s r=%s imported=%d index=%s term=%s fp=%s size=%s files=[%s] cksum=%s dummy=%d type=%s shard=%s ondisk=%s witness=%d"
    (string_of_n m.m_ccid) (show_map m.m_addresses) (show_map m.m_nonvotings) (show_map m.m_witnesses)
    (show_set m.m_removed) (b01 ss.s_imported) (string_of_n ss.s_index) (string_of_n ss.s_term)
    (hex_of_bytes ss.s_filepath) (string_of_n ss.s_filesize) (String.concat "," files)
    (hex_of_bytes ss.s_checksum) (b01 ss.s_dummy) (string_of_n ss.s_type) (string_of_n ss.s_shard)
    (string_of_n ss.s_ondisk) (b01 ss.s_witness)

let parse_old f : snapshot =
  let files =
    let s = get f "files" in
    if s = "-" || s = "" then [] else
      List.mapi (fun i p -> { sf_path = bytes_of_hex p; sf_size = n_of_int (10 + i);
                              sf_id = n_of_int (i + 1); sf_meta = [n_of_int i] })
        (String.split_on_char ',' s) in
  { s_filepath = bytes_of_hex (get f "fp"); s_filesize = getn f "size"; s_index = getn f "idx";
    s_term = getn f "term";
    s_membership = { m_ccid = getn f "ccid"; m_addresses = parse_map (get f "a");
                     m_nonvotings = parse_map (get f "n"); m_witnesses = parse_map (get f "w");
                     m_removed = parse_set (get f "r") };
    s_files = files; s_checksum = bytes_of_hex (get f "cksum"); s_dummy = (get f "dummy" = "1");
    s_shard = getn f "shard"; s_type = getn f "type"; s_imported = false;
    s_ondisk = getn f "ondisk"; s_witness = (get f "witness" = "1") }

let member_tag = function
  | None -> "OK"
  | Some EAddrChanged -> "ADDRCHANGED"
  | Some ENonVotingAsRegular -> "NONVOTING"
  | Some EWitnessAsRegular -> "WITNESS"
  | Some EAddingRemoved -> "REMOVED"

let run_cm id rest =
  let f = fields rest in
  let old = parse_old f in
  let members = parse_map (get f "m") in
  (match check_import_settings (bytes_of_hex (get f "raddr")) members (getn f "self") with
   | SettingsOk -> Printf.printf "%s settings OK\n" id
   | SettingsNotListed -> Printf.printf "%s settings NOTLISTED\n" id
   | SettingsAddrMismatch -> Printf.printf "%s settings ADDR\n" id);
  (match check_members old.s_membership members with
   | None -> Printf.printf "%s members OK\n" id
   | Some _ -> Printf.printf "%s members ERR\n" id);
  List.iter (fun (k, a) ->
      Printf.printf "%s member %s %s\n" id (string_of_n k) (member_tag (check_member old.s_membership k a)))
    (mnorm members);
  let out = get_processed (bytes_of_hex (get f "dst")) old members in
  Printf.printf "%s processed %s\n" id (show_record out)

let zeros k = List.init k (fun _ -> N0)

let run_img id rest =
  let f = fields rest in
  let file = zeros (int_of_n rsm_header_size) @ bytes_of_hex (get f "body") in
  let recorded = bytes_of_hex (get f "recorded") in
  let tag = match is_complete_image file recorded with
    | ImageComplete -> "COMPLETE" | ImageIncomplete -> "INCOMPLETE" | ImageErr -> "ERR" in
  let sum = match payload_checksum file with CkOk s -> hex_of_bytes s | _ -> "-" in
  Printf.printf "%s image %s sum=%s\n" id tag sum

let run_loc id rest =
  let f = fields rest in
  let entries =
    let s = get f "entries" in
    if s = "-" || s = "" then [] else
      List.map (fun e ->
          match String.split_on_char ':' e with
          | [nm; k] -> { de_name = bytes_of_hex nm; de_isdir = (k = "d"); de_size = N0 }
          | [nm; k; sz] -> { de_name = bytes_of_hex nm; de_isdir = (k = "d"); de_size = n_of_string sz }
          | _ -> failwith "bad entry") (String.split_on_char ',' s) in
  match locate_snapshot_file (get f "exists" = "1") entries with
  | LocOk nm -> Printf.printf "%s locate OK %s\n" id (hex_of_bytes nm)
  | LocPathNotExist -> Printf.printf "%s locate NOTEXIST\n" id
  | LocIncomplete -> Printf.printf "%s locate INCOMPLETE\n" id

let run_ext id rest =
  let f = fields rest in
  let entries =
    let s = get f "entries" in
    if s = "-" || s = "" then [] else
      List.map (fun e ->
          match String.split_on_char ':' e with
          | [nm; k; sz] -> { de_name = bytes_of_hex nm; de_isdir = (k = "d"); de_size = n_of_string sz }
          | _ -> failwith "bad entry") (String.split_on_char ',' s) in
  let files =
    let s = get f "files" in
    if s = "-" || s = "" then [] else
      List.mapi (fun i e ->
          match String.split_on_char ':' e with
          | [p; sz] -> { sf_path = bytes_of_hex p; sf_size = n_of_string sz; sf_id = n_of_int (i + 1); sf_meta = [] }
          | _ -> failwith "bad file") (String.split_on_char ',' s) in
  Printf.printf "%s ext %s\n" id (if has_all_external_files files entries then "COMPLETE" else "INCOMPLETE")

let ls_replica = n_of_int 3
let ls_snapshot index term typ imported : snapshot =
  { s_filepath = []; s_filesize = n_of_int 1234; s_index = index; s_term = term;
    s_membership = { m_ccid = index; m_addresses = [(ls_replica, bytes_of_string "a3"); (n_of_int 9, bytes_of_string "a9")];
                     m_nonvotings = []; m_witnesses = []; m_removed = [n_of_int 1] };
    s_files = []; s_checksum = [n_of_int 1; n_of_int 2; n_of_int 3; n_of_int 4]; s_dummy = false;
    s_shard = n_of_int 7; s_type = typ; s_imported = imported; s_ondisk = N0; s_witness = false }

let split_bar rest =
  match String.index_opt rest '|' with
  | Some i -> String.trim (String.sub rest 0 i),
              String.trim (String.sub rest (i + 1) (String.length rest - i - 1))
  | None -> rest, ""

let run_ls id rest =
  let head, body = split_bar rest in
  let f = fields head in
  let tan = (get f "db" = "tan") in
  let ss = match String.split_on_char ',' (get f "imp") with
    | [i; t; ty] -> ls_snapshot (n_of_string i) (n_of_string t) (n_of_string ty) true
    | _ -> failwith "bad imp" in
  let ts = ref empty_tstore in
  (* Pebble has no compaction point: compaction deletes the entries *)
  let ap o = if tan then ts := apply_tsop !ts o
    else ts := { ts_ls = apply_lsop (!ts).ts_ls o; ts_compacted = N0 } in
  if body <> "" then
    List.iter (fun op ->
        match split_ws op with
        | ["state"; t; v; c] ->
          ap (LSaveState { hs_term = n_of_string t; hs_vote = n_of_string v; hs_commit = n_of_string c })
        | ["ents"; first; count; term] ->
          ap (LSaveState { hs_term = n_of_string term; hs_vote = N0; hs_commit = n_of_string first });
          ap (LSaveEntries (n_of_string first, n_of_string count, n_of_string term))
        | ["snap"; i; t] ->
          ap (LSaveSnapshot (ls_snapshot (n_of_string i) (n_of_string t) (n_of_int 1) false))
        | ["boot"; j; ty] ->
          ap (LSaveBootstrap { bs_join = (j = "1"); bs_type = n_of_string ty;
                               bs_addresses = [(ls_replica, bytes_of_string "a3")] })
        | ["compact"; i] -> ap (LCompact (n_of_string i))
        | ["reopen"] -> ()
        | _ -> ()) (Str.split (Str.regexp_string " ; ") body);
  let res = if tan then Some (tan_import_t !ts ss)
    else (match logdb_import (!ts).ts_ls ss with
        | LOk l -> Some { ts_ls = l; ts_compacted = N0 } | LPanic -> None) in
  match res with
  | None -> Printf.printf "%s ls import PANIC-UNKNOWN-TYPE\n" id
  | Some t ->
    let l = t.ts_ls in
    let vis = List.length (ts_visible_entries t ss.s_index) in
    let state_s = match l.ls_state with
      | None -> "NOLOG"
      | Some h ->
        Printf.sprintf "%s/%s/%s count=%d" (string_of_n h.hs_term) (string_of_n h.hs_vote) (string_of_n h.hs_commit) vis in
    let snap_s = match ls_get_snapshot l with
      | None -> "0/0/imported=false/type=0/a=[]/r=[]"
      | Some s ->
        Printf.sprintf "%s/%s/imported=%b/type=%s/a=%s/r=%s" (string_of_n s.s_index) (string_of_n s.s_term)
          s.s_imported (string_of_n s.s_type) (show_map s.s_membership.m_addresses) (show_set s.s_membership.m_removed) in
    let boot_s = match l.ls_bootstrap with
      | None -> "NONE"
      | Some b -> Printf.sprintf "join=%b/type=%s/addrs=%d" b.bs_join (string_of_n b.bs_type) (List.length b.bs_addresses) in
    Printf.printf "%s ls post state=%s snap=%s boot=%s visible=%d\n" id state_s snap_s boot_s vis;
    (* life after the repair: k entries appended above the imported index *)
    let life = if get f "life" = "" then n_of_int 3 else getn f "life" in
    if life <> N0 then begin
      let op = LSaveEntries (util_add ss.s_index (n_of_int 1), life, util_add ss.s_term (n_of_int 1)) in
      let t2 = if tan then apply_tsop t op else { ts_ls = apply_lsop t.ts_ls op; ts_compacted = N0 } in
      let k = List.length (ts_visible_entries t2 ss.s_index) in
      Printf.printf "%s ls life now=%d count=%d reopened=%d\n" id k k k
    end

(* ---- end-to-end cases: the model predicts, per trial, whether ImportSnapshot
   refuses, and the membership after the repair. The export is represented by a
   synthetic one-block snapshot file (the real one differs in content, not in
   layout); a corrupted header is represented by an unreadable (too short) file,
   since the model takes the header as valid (C14 models it). ---- *)
let nn = n_of_int
let syn_payload = List.init 40 (fun i -> nn (10 + i))
let syn_crc = [nn 1; nn 2; nn 3; nn 4]
let syn_file = zeros (int_of_n rsm_header_size) @ syn_payload @ syn_crc @ zeros 16
let syn_sum = match payload_checksum syn_file with CkOk s -> s | _ -> []
let flip_nth l i = List.mapi (fun j x -> if j = i then (if x = N0 then nn 1 else N0) else x) l
let rec take k l = if k <= 0 then [] else match l with [] -> [] | x :: r -> x :: take (k - 1) r

let parse_old_membership (s : string) : membership =
  let parts = List.map (fun kv ->
      match String.index_opt kv '=' with
      | Some i -> (String.sub kv 0 i, String.sub kv (i + 1) (String.length kv - i - 1))
      | None -> (kv, "")) (String.split_on_char ';' s) in
  let g k = try List.assoc k parts with Not_found -> "-" in
  { m_ccid = nn 50; m_addresses = parse_map (g "a"); m_nonvotings = parse_map (g "n");
    m_witnesses = parse_map (g "w"); m_removed = parse_set (g "r") }

let run_e2e id rest =
  if String.length rest >= 4 && String.sub rest 0 4 = "skip" then Printf.printf "%s e2e SKIP\n" id else begin
    let head, body = split_bar rest in
    let f = fields head in
    let has_ext = (get f "sm" = "regular" && get f "fs" = "disk") in
    let tan = (get f "db" = "tan") in
    let oldm = parse_old_membership (get f "old") in
    let snap_name = bytes_of_string "snapshot-0000000000000064.gbsnap" in
    let ext_name = bytes_of_string "external-file-1" in
    let old : snapshot =
      { s_filepath = bytes_of_string "/nh1/snapshot-0000000000000064/" @ snap_name; s_filesize = nlen syn_file;
        s_index = nn 100; s_term = nn 2; s_membership = oldm;
        s_files = (if has_ext then [{ sf_path = bytes_of_string "/nh1/snapshot-0000000000000064/" @ ext_name;
                                      sf_size = nn 9; sf_id = nn 1; sf_meta = [] }] else []);
        s_checksum = syn_sum; s_dummy = false; s_shard = nn 1; s_type = nn 1; s_imported = false;
        s_ondisk = N0; s_witness = false } in
    let de n sz = { de_name = n; de_isdir = false; de_size = sz } in
    let base_entries = [de snap_name (nlen syn_file); de (bytes_of_string "snapshot.metadata") (nn 80)]
                       @ (if has_ext then [de ext_name (nn 9)] else []) in
    Printf.printf "%s export OK old=%s\n" id (get f "old");
    let hdr = int_of_n rsm_header_size in
    if body <> "" then
      List.iteri (fun n ts ->
          match split_ws ts with
          | name :: corruption :: self :: raddr :: members :: more ->
            let cname, arg = match String.index_opt corruption ':' with
              | Some i -> String.sub corruption 0 i,
                          int_of_string (String.sub corruption (i + 1) (String.length corruption - i - 1))
              | None -> corruption, 0 in
            if (cname = "del-ext" || cname = "flip-ext") && not has_ext then
              Printf.printf "%s trial %d %s NOEXT\n" id n name
            else begin
              let entries = match cname with
                | "del-snap" -> List.filter (fun e -> e.de_name <> snap_name) base_entries
                | "extra-snap" -> de (bytes_of_string "copy-of-s.gbsnap") (nlen syn_file) :: base_entries
                | "del-ext" -> List.filter (fun e -> e.de_name <> ext_name) base_entries
                | _ -> base_entries in
              let meta = match cname with
                | "del-meta" -> MetaErr
                | "flip-meta" | "trunc-meta" -> MetaPanic
                | _ -> MetaOk old in
              let len = List.length syn_file in
              let file = match cname with
                | "flip-crc" -> flip_nth syn_file (hdr + 40 + arg mod 4)
                | "flip-hdr" -> take 10 syn_file
                | "flip-pad" -> flip_nth syn_file (100 + arg mod 900)
                | "flip-payload" -> flip_nth syn_file (hdr + arg mod 40)
                | "flip-tail" -> flip_nth syn_file (len - 16 + arg mod 16)
                | "trunc" -> take (len - (1 + arg mod (len - 1))) syn_file
                | "append" -> syn_file @ List.init (1 + arg mod 9) (fun _ -> nn 90)
                | _ -> syn_file in
              let inp = { in_raft_address = bytes_of_hex raddr; in_members = parse_map members;
                          in_replica = n_of_string self; in_src_exists = true; in_entries = entries;
                          in_meta = meta; in_file = file; in_ssdir_exists = true;
                          in_final_dir = bytes_of_string "/t/final"; in_env_fail = [] } in
              (* an earlier run on the same host: first=<replica>/<members> *)
              (* the record is found by NewNodeHost only if the tool wrote it into the
                 store NewNodeHost opens (data dir + low latency dir) *)
              let nhdir = bytes_of_string "/h/data" in
              let waldir = match get f "wal" with
                | "same" -> nhdir | "distinct" -> bytes_of_string "/h/wal" | _ -> [] in
              let found = tan || same_dirs (tool_store_dirs nhdir waldir) (nodehost_store_dirs nhdir waldir) in
              let store_after ls ss =
                if not found then None
                else if tan then Some (tan_import ls ss)
                else (match logdb_import ls ss with LOk l -> Some l | LPanic -> None) in
              let first_ok, ls1 = match more with
                | fst_s :: _ when String.length fst_s > 6 && String.sub fst_s 0 6 = "first=" ->
                  let v = String.sub fst_s 6 (String.length fst_s - 6) in
                  let i = String.index v '/' in
                  let fself = n_of_string (String.sub v 0 i) in
                  let fmem = parse_map (String.sub v (i + 1) (String.length v - i - 1)) in
                  let finp = { in_raft_address = bytes_of_hex raddr; in_members = fmem; in_replica = fself;
                               in_src_exists = true; in_entries = base_entries; in_meta = MetaOk old;
                               in_file = syn_file; in_ssdir_exists = true;
                               in_final_dir = bytes_of_string "/t/final"; in_env_fail = [] } in
                  (match snd (import_run finp) with
                   | Imported ss1 ->
                     (* records of another replica id live under other keys *)
                     if fself = n_of_string self then (true, (match store_after empty_logstore ss1 with Some l -> l | None -> empty_logstore))
                     else (true, empty_logstore)
                   | _ -> (false, empty_logstore))
                | _ -> (true, empty_logstore) in
              if not first_ok then Printf.printf "%s trial %d %s FIRST-REFUSED\n" id n name
              else
              (match snd (import_run inp) with
               | Imported ss ->
                 (match store_after ls1 ss with
                  | Some l ->
                    (match ls_get_snapshot l with
                     | Some r ->
                       let m = r.s_membership in
                       Printf.printf "%s trial %d %s ACCEPTED rec=a=%s/n=%s/w=%s/r=%s/imported=%b/ccid=%s\n" id n name
                         (show_map m.m_addresses) (show_map m.m_nonvotings) (show_map m.m_witnesses)
                         (show_set m.m_removed) r.s_imported
                         (if m.m_ccid = r.s_index && r.s_index = old.s_index then "INDEX" else "OTHER")
                     | None -> Printf.printf "%s trial %d %s ACCEPTED rec=UNREADABLE\n" id n name)
                  | None -> Printf.printf "%s trial %d %s ACCEPTED rec=UNREADABLE\n" id n name)
               | _ -> Printf.printf "%s trial %d %s REFUSED\n" id n name)
            end
          | _ -> Printf.printf "%s trial %d BADTRIAL\n" id n) (Str.split (Str.regexp_string " ; ") body);
    (* power failures inside ImportSnapshot: never a half imported state, a re-run repairs
       (theorems crash_never_half_imported, import_rerunnable) *)
    if get f "crash" <> "" && get f "crash" <> "0" then
      Printf.printf "%s crash half=0 rerun-failed=0\n" id;
    let members = parse_map (get f "members") in
    let ok = ref true in
    List.iter (fun (k, a) ->
        let inp = { in_raft_address = a; in_members = members; in_replica = k; in_src_exists = true;
                    in_entries = base_entries; in_meta = MetaOk old; in_file = syn_file; in_ssdir_exists = false;
                    in_final_dir = bytes_of_string "/t/final"; in_env_fail = [] } in
        match snd (import_run inp) with
        | Imported _ -> if !ok then Printf.printf "%s import %s OK\n" id (string_of_n k)
        | _ -> if !ok then Printf.printf "%s import %s ERR\n" id (string_of_n k); ok := false) (mnorm members);
    if !ok then begin
      let ss = get_processed (bytes_of_string "/t/final") old members in
      let m = ss.s_membership in
      Printf.printf "%s restart members=%s nonvoting=%s witness=%s removed=%s state=EXPORTED propose=OK\n" id
        (show_map m.m_addresses) (show_map m.m_nonvotings) (show_map m.m_witnesses) (show_set m.m_removed);
      (* the client session registered before the export is part of the exported state *)
      if get f "sess" = "1" && get f "sm" <> "ondisk" then
        Printf.printf "%s session dup=CACHED next=OK\n" id;
      (* second restart: the imported record is still the newest one; an on-disk state
         machine finds its image shrunk and must not recover from it (do_recover) *)
      let on_disk = (get f "sm" = "ondisk") in
      let st2 = match restart_recover on_disk on_disk (nn 101) ss with
        | RcLoaded -> if on_disk then "RELOADED-SHRUNK-IMAGE" else "EXPORTED+LATER"
        | RcSkipped -> "EXPORTED+LATER"
        | RcOutOfDate -> "OUT-OF-DATE"
        | RcPanic -> "PANIC" in
      Printf.printf "%s restart2 members=%s state=%s propose=OK\n" id (show_map m.m_addresses) st2
    end
  end

let () =
  iter_lines (fun line ->
    match split_ws line with
    | id :: kind :: _ ->
      let p = String.length id + 1 + String.length kind in
      let rest = String.trim (String.sub line p (String.length line - p)) in
      (match kind with
       | "cm" -> run_cm id rest
       | "img" -> run_img id rest
       | "loc" -> run_loc id rest
       | "ext" -> run_ext id rest
       | "ls" -> run_ls id rest
       | "e2e" -> run_e2e id rest
       | _ -> Printf.printf "%s BADCASE\n" id)
    | _ -> ())
