open Model
open Util

let show_dec = function
  | DecOk (e, n) ->
    Printf.sprintf "ok %s %s %s %s %s %s %s %s %s"
      (string_of_n e.e_term) (string_of_n e.e_index) (string_of_z e.e_type)
      (string_of_n e.e_key) (string_of_n e.e_client) (string_of_n e.e_series)
      (string_of_n e.e_responded) (hex_of_bytes e.e_cmd) (string_of_n n)
  | DecEOF -> "eof"
  | DecBadHeader p -> "bad " ^ string_of_n p
  | DecMax -> "max"

let bool_of_string01 s = (s = "1")

(* ---- token reader for the proto values (same grammar as the Go harness) ---- *)
let toks : string list ref = ref []
let next () = match !toks with
  | [] -> failwith "out of tokens"
  | t :: r -> toks := r; t
let p_n () = n_of_string (next ())
let p_z () = z_of_string (next ())
let p_b () = bool_of_string01 (next ())
(* byte string: "-" nil, "=" empty but non-nil, else hex; element count: "0" nil,
   "=" empty but non-nil, else n.  The model identifies nil and empty exactly where
   the Go codec tests len(x) > 0 and keeps them apart (option) where it tests x != nil *)
let bytes_tok t = if t = "=" || t = "-" then [] else bytes_of_hex t
let p_bytes () = bytes_tok (next ())
let p_opt () = let t = next () in if t = "-" then None else Some (bytes_tok t)
let p_list f = let t = next () in
  let c = if t = "=" then 0 else int_of_string t in List.init c (fun _ -> f ())
let p_entry () =
  let t = p_n () in let i = p_n () in let ty = p_z () in let k = p_n () in let c = p_n () in
  let s = p_n () in let r = p_n () in let cmd = p_bytes () in
  { e_term = t; e_index = i; e_type = ty; e_key = k; e_client = c; e_series = s;
    e_responded = r; e_cmd = cmd }
let p_state () = let a = p_n () in let b = p_n () in let c = p_n () in
  { st_term = a; st_vote = b; st_commit = c }
let p_session () = let a = p_n () in let b = p_n () in let c = p_n () in let d = p_n () in
  { ss_shard = a; ss_client = b; ss_series = c; ss_responded = d }
let p_cc () = let a = p_n () in let b = p_z () in let c = p_n () in let d = p_bytes () in let e = p_b () in
  { cc_id = a; cc_type = b; cc_replica = c; cc_address = d; cc_init = e }
let p_sf () = let a = p_bytes () in let b = p_n () in let c = p_n () in let d = p_opt () in
  { sf_filepath = a; sf_filesize = b; sf_fileid = c; sf_metadata = d }
let p_sh () =
  let a = p_n () in let b = p_n () in let c = p_n () in let d = p_bytes () in let e = p_opt () in
  let f = p_opt () in let g = p_z () in let h = p_n () in let i = p_z () in
  { sh_session_size = a; sh_datastore_size = b; sh_unreliable_time = c; sh_git_version = d;
    sh_header_checksum = e; sh_payload_checksum = f; sh_checksum_type = g; sh_version = h;
    sh_compression_type = i }
let p_rds () =
  let a = p_bytes () in let b = p_n () in let c = p_n () in let d = p_bytes () in let e = p_bytes () in
  let f = p_n () in let g = p_n () in let h = p_n () in let i = p_n () in let j = p_n () in let k = p_b () in
  { rds_address = a; rds_binver = b; rds_hardhash = c; rds_logdbtype = d; rds_hostname = e;
    rds_deployment = f; rds_stepworkers = g; rds_logdbshards = h; rds_maxsessions = i;
    rds_entrybatch = j; rds_addr_by_nhid = k }
let p_smap () = p_list (fun () -> let k = p_n () in let v = p_bytes () in (k, v))
let p_bmap () = p_list (fun () -> let k = p_n () in let v = p_b () in (k, v))
let p_mb () =
  let a = p_n () in let b = p_smap () in let c = p_bmap () in let d = p_smap () in let e = p_smap () in
  { mb_ccid = a; mb_addresses = b; mb_removed = c; mb_nonvotings = d; mb_witnesses = e }
let p_bs () = let a = p_smap () in let b = p_b () in let c = p_z () in
  { bs_addresses = a; bs_join = b; bs_type = c }
let p_sn () =
  let a = p_bytes () in let b = p_n () in let c = p_n () in let d = p_n () in let e = p_mb () in
  let f = p_list p_sf in let g = p_opt () in let h = p_b () in let i = p_n () in let j = p_z () in
  let k = p_b () in let l = p_n () in let m = p_b () in
  { sn_filepath = a; sn_filesize = b; sn_index = c; sn_term = d; sn_membership = e; sn_files = f;
    sn_checksum = g; sn_dummy = h; sn_shard = i; sn_type = j; sn_imported = k; sn_ondisk = l;
    sn_witness = m }
let p_msg () =
  let a = p_z () in let b = p_n () in let c = p_n () in let d = p_n () in let e = p_n () in
  let f = p_n () in let g = p_n () in let h = p_n () in let i = p_b () in let j = p_n () in
  let k = p_list p_entry in let l = p_sn () in let m = p_n () in
  { m_type = a; m_to = b; m_from = c; m_shard = d; m_term = e; m_logterm = f; m_logindex = g;
    m_commit = h; m_reject = i; m_hint = j; m_entries = k; m_snapshot = l; m_hinthigh = m }
let p_bt () = let a = p_list p_msg in let b = p_n () in let c = p_bytes () in let d = p_n () in
  { bt_requests = a; bt_deployment = b; bt_source = c; bt_binver = d }
let p_ck () =
  let a = p_n () in let b = p_n () in let c = p_n () in let d = p_n () in let e = p_n () in
  let f = p_n () in let g = p_opt () in let h = p_n () in let i = p_n () in let j = p_mb () in
  let k = p_bytes () in let l = p_n () in let m = p_n () in let n = p_n () in let o = p_n () in
  let p = p_b () in let q = p_sf () in let r = p_n () in let s = p_n () in let t = p_b () in
  { ck_shard = a; ck_replica = b; ck_from = c; ck_id = d; ck_size = e; ck_count = f; ck_data = g;
    ck_index = h; ck_term = i; ck_membership = j; ck_filepath = k; ck_filesize = l;
    ck_deployment = m; ck_filechunkid = n; ck_filechunkcount = o; ck_hasfileinfo = p;
    ck_fileinfo = q; ck_binver = r; ck_ondisk = s; ck_witness = t }
let p_update () =
  let a = p_n () in let b = p_n () in let c = p_state () in let d = p_list p_entry in let e = p_sn () in
  { u_shard = a; u_replica = b; u_state = c; u_entries = d; u_snapshot = e }

(* decoded maps are printed in ascending key order (the Go side sorts too) *)
let n_compare a b =
  let sa = string_of_n a and sb = string_of_n b in
  if String.length sa <> String.length sb then compare (String.length sa) (String.length sb)
  else compare sa sb
let sort_map m = List.stable_sort (fun (a, _) (b, _) -> n_compare a b) m
let canon_mb m = { m with mb_addresses = sort_map m.mb_addresses; mb_removed = sort_map m.mb_removed;
                   mb_nonvotings = sort_map m.mb_nonvotings; mb_witnesses = sort_map m.mb_witnesses }
let canon_bs b = { b with bs_addresses = sort_map b.bs_addresses }
let canon_sn s = { s with sn_membership = canon_mb s.sn_membership }
let canon_msg m = { m with m_snapshot = canon_sn m.m_snapshot }
let canon_bt b = { b with bt_requests = List.map canon_msg b.bt_requests }
let canon_ck c = { c with ck_membership = canon_mb c.ck_membership }
let canon_upd u = { u with u_snapshot = canon_sn u.u_snapshot }
let omap f = function Some v -> Some (f v) | None -> None

let show_rt enc = function
  | Some v -> "ok " ^ hex_of_bytes (enc v)
  | None -> "err"

(* PB <type> tokens: ENC hex SIZE n [UPPER n] DEC <re-encoding of the decoded value> *)
let pb_value ty =
  let one enc size dec upper v =
    let b = enc v in
    Printf.sprintf "ENC %s SIZE %s%s DEC %s" (hex_of_bytes b) (string_of_n (size v))
      (match upper with Some f -> " UPPER " ^ string_of_n (f v) | None -> "")
      (show_rt enc (dec b)) in
  let onec enc size dec upper cn v = one enc size (fun b -> omap cn (dec b)) upper v in
  match ty with
  | "state" -> one state_encode state_size state_decode (Some (fun _ -> state_size_upper)) (p_state ())
  | "session" -> one session_encode session_size session_decode None (p_session ())
  | "cc" -> one cc_encode cc_size cc_decode None (p_cc ())
  | "sf" -> one sf_encode sf_size sf_decode None (p_sf ())
  | "sh" -> one sh_encode sh_size sh_decode None (p_sh ())
  | "rds" -> one rds_encode rds_size rds_decode None (p_rds ())
  | "eb" -> one eb_encode eb_size eb_decode (Some eb_size_upper) (p_list p_entry)
  | "mb" -> onec mb_encode mb_size mb_decode None canon_mb (p_mb ())
  | "bs" -> onec bs_encode bs_size bs_decode None canon_bs (p_bs ())
  | "sn" -> onec sn_encode sn_size sn_decode None canon_sn (p_sn ())
  | "msg" -> onec msg_encode msg_size msg_decode (Some msg_size_upper) canon_msg (p_msg ())
  | "bt" -> onec bt_encode bt_size bt_decode (Some bt_size_upper) canon_bt (p_bt ())
  | "ck" -> onec ck_encode ck_size_of ck_decode None canon_ck (p_ck ())
  | _ -> failwith ("unknown type " ^ ty)

let pb_decode ty b =
  match ty with
  | "state" -> show_rt state_encode (state_decode b)
  | "session" -> show_rt session_encode (session_decode b)
  | "cc" -> show_rt cc_encode (cc_decode b)
  | "sf" -> show_rt sf_encode (sf_decode b)
  | "sh" -> show_rt sh_encode (sh_decode b)
  | "rds" -> show_rt rds_encode (rds_decode b)
  | "eb" -> show_rt eb_encode (eb_decode b)
  | "mb" -> show_rt mb_encode (omap canon_mb (mb_decode b))
  | "bs" -> show_rt bs_encode (omap canon_bs (bs_decode b))
  | "sn" -> show_rt sn_encode (omap canon_sn (sn_decode b))
  | "msg" -> show_rt msg_encode (omap canon_msg (msg_decode b))
  | "bt" -> show_rt bt_encode (omap canon_bt (bt_decode b))
  | "ck" -> show_rt ck_encode (omap canon_ck (ck_decode b))
  | _ -> failwith ("unknown type " ^ ty)

let show_ures = function
  | UOk u -> "ok " ^ hex_of_bytes (update_encode (canon_upd u))
  | UErr -> "err"
  | UPanic -> "panic"

let show_hdr (h : header) =
  Printf.sprintf "%s %s %s" (string_of_n h.h_method) (string_of_n h.h_size) (string_of_n h.h_crc)

let show_hdr_dec = function
  | Some h -> "ok " ^ show_hdr h
  | None -> "none"

let show_verdict = function
  | Delivered (h, p, rest) ->
    Printf.sprintf "ok %s %s %s" (show_hdr h) (hex_of_bytes p) (string_of_n (nlen rest))
  | Poison -> "poison"
  | Bad -> "bad"
  | IOErr -> "io"

(* The extracted functions recurse once per list element (length returns a unary
   nat, app/map are not tail recursive); the rule-described payloads are up to a few
   hundred KB long, so run with a large system stack: re-exec once under a raised
   soft limit (stdin/stdout are inherited, nothing has been read yet). *)
let () =
  if Sys.getenv_opt "VERIF_C13_STACK" = None then begin
    let cmd = Printf.sprintf
        "ulimit -s 4000000 2>/dev/null || ulimit -s unlimited 2>/dev/null; VERIF_C13_STACK=1 exec %s"
        (Filename.quote Sys.executable_name) in
    exit (Sys.command cmd)
  end

let () =
  iter_lines (fun line ->
    match split_ws line with
    | [id; "HDR"; m; sz; c] ->
      let h = { h_method = n_of_string m; h_size = n_of_string sz; h_crc = n_of_string c } in
      let b = encode_header h in
      Printf.printf "%s HDR %s DEC %s\n" id (hex_of_bytes b) (show_hdr_dec (decode_header b))
    | [id; "HDRDEC"; hx] ->
      Printf.printf "%s HDRDEC %s\n" id (show_hdr_dec (decode_header (bytes_of_hex hx)))
    | [id; "WRITE"; m; c; enc; _rb; p] ->
      let h = { h_method = n_of_string m; h_size = N0; h_crc = n_of_string c } in
      let e = bool_of_string01 enc in
      let s = write_message h (bytes_of_hex p) e in
      Printf.printf "%s WRITE %s READ %s\n" id (hex_of_bytes s) (show_verdict (read_frame e s))
    | [id; "FRAME"; enc; _rb; _tag; s] ->
      Printf.printf "%s FRAME %s\n" id (show_verdict (read_frame (bool_of_string01 enc) (bytes_of_hex s)))
    | id :: "PB" :: ty :: rest ->
      toks := rest;
      Printf.printf "%s PB %s\n" id (pb_value ty)
    | [id; "PBDEC"; ty; hx] ->
      Printf.printf "%s PBDEC %s\n" id (pb_decode ty (bytes_of_hex hx))
    | id :: "UPD" :: rest ->
      toks := rest;
      let u = p_update () in
      let b = update_encode u in
      Printf.printf "%s UPD ENC %s UPPER %s DEC %s\n" id (hex_of_bytes b)
        (string_of_n (update_size_upper u)) (show_ures (update_decode b))
    | [id; "UPDDEC"; hx] ->
      Printf.printf "%s UPDDEC %s\n" id (show_ures (update_decode (bytes_of_hex hx)))
    | [id; "PAY"; ct; cmd; block] ->
      (* block = the snappy block the implementation produced (oracle for the
         Section variables compress/decompress) *)
      let cmd = bytes_of_hex cmd and block = bytes_of_hex block in
      let c = if ct = "1" then Snappy else NoCompression in
      let compress _ = block in
      let decompress b = if b = block then Some cmd else None in
      (match get_encoded compress c cmd with
       | None -> Printf.printf "%s PAY panic\n" id
       | Some enc ->
         Printf.printf "%s PAY ENC %s DEC %s\n" id (hex_of_bytes enc)
           (match get_decoded decompress enc with
            | POk b -> "ok " ^ hex_of_bytes b | PErr -> "err" | PPanic -> "panic"))
    | [id; "PAYR"; ct; rule; a; b; block] ->
      (* payload given by a generator rule (same construction as payloadByRule in
         harness/cmd/c13/payload.go), observed through length and a digest *)
      let a = int_of_string a and b = int_of_string b in
      let bytes_i =
        match rule with
        | "rep" -> List.init b (fun _ -> a land 255)
        | "recpad" -> List.init 40 (fun i -> (a * 31 + i * 7) land 255) @ List.init b (fun _ -> 0)
        | "runs" -> List.init b (fun i -> (a + i / 97) land 255)
        | _ -> failwith ("unknown rule " ^ rule) in
      let cmd = List.map n_of_int bytes_i and block = bytes_of_hex block in
      let digest l = List.fold_left (fun s x -> (s * 31 + int_of_n x) mod 1000000007) 7 l in
      let c = if ct = "1" then Snappy else NoCompression in
      let compress _ = block in
      let decompress x = if x = block then Some cmd else None in
      (match get_encoded compress c cmd with
       | None -> Printf.printf "%s PAYR panic\n" id
       | Some enc ->
         Printf.printf "%s PAYR ENCLEN %d ENCSUM %d DEC %s\n" id (List.length enc) (digest enc)
           (match get_decoded decompress enc with
            | POk out -> Printf.sprintf "ok %d %d" (List.length out) (digest out)
            | PErr -> "err" | PPanic -> "panic"))
    | id :: "PAYBATCH" :: "|" :: ops ->
      (* a batch of entries decoded the way rsm.handleBatch does: by payload_roundtrip
         every entry's payload is the original one, whatever else is in the batch *)
      let rec split acc cur = function
        | [] -> List.rev (if cur = [] then acc else List.rev cur :: acc)
        | ";" :: r -> split (List.rev cur :: acc) [] r
        | t :: r -> split acc (t :: cur) r in
      let digest l = List.fold_left (fun s x -> (s * 31 + x) mod 1000000007) 7 l in
      let one = function
        | [_ct; rule; a; b] ->
          let a = int_of_string a and b = int_of_string b in
          let bytes_i =
            match rule with
            | "rep" -> List.init b (fun _ -> a land 255)
            | "recpad" -> List.init 40 (fun i -> (a * 31 + i * 7) land 255) @ List.init b (fun _ -> 0)
            | "runs" -> List.init b (fun i -> (a + i / 97) land 255)
            | _ -> failwith ("unknown rule " ^ rule) in
          Printf.sprintf " %d:%d" (List.length bytes_i) (digest bytes_i)
        | _ -> failwith "bad PAYBATCH op" in
      Printf.printf "%s PAYBATCH%s\n" id (String.concat "" (List.map one (split [] [] ops)))
    | [id; "PAYDEC"; hx] ->
      Printf.printf "%s PAYDEC %s\n" id
        (match get_decoded (fun _ -> None) (bytes_of_hex hx) with
         | POk b -> "ok " ^ hex_of_bytes b | PErr -> "err" | PPanic -> "panic")
    | [id; "CFGFRAME"; m; ca; ce; k; _rb; _tag; st] ->
      let c = { c_mutual_tls = bool_of_string01 m; c_cafile = bool_of_string01 ca;
                c_certfile = bool_of_string01 ce; c_keyfile = bool_of_string01 k } in
      let enc = transport_encrypted c in
      Printf.printf "%s CFGFRAME ENC %d %s\n" id (if enc then 1 else 0)
        (show_verdict (read_frame enc (bytes_of_hex st)))
    | id :: "SERVE" :: m :: _rb :: "|" :: ops ->
      (* ops: tag:hex separated by ";" - the connection carries the concatenation *)
      let chunks = List.filter (fun t -> t <> ";") ops in
      let stream = List.concat (List.map (fun t ->
        match String.index_opt t ':' with
        | Some i -> bytes_of_hex (String.sub t (i + 1) (String.length t - i - 1))
        | None -> []) chunks) in
      let c = { c_mutual_tls = bool_of_string01 m; c_cafile = false; c_certfile = false; c_keyfile = false } in
      let enc = transport_encrypted c in
      let refuse_id = n_of_int 424242 in
      let handle (h : header) (p : bytes) =
        if h.h_method = raft_type then
          (match bt_decode p with Some _ -> Accepted | None -> Undecodable)
        else
          (match ck_decode p with
           | Some ck -> if ck.ck_id = refuse_id then Refused else Accepted
           | None -> Undecodable) in
      let ((d, u), a) = serve_conn enc handle stream in
      let digest l = List.fold_left (fun s x -> (s * 31 + int_of_n x) mod 1000000007) 7 l in
      Printf.printf "%s SERVE N %d%s UNREAD %s ACK %d\n" id (List.length d)
        (String.concat "" (List.map (fun ((h : header), p) ->
           Printf.sprintf " %s:%d:%d" (string_of_n h.h_method) (List.length p) (digest p)) d))
        (string_of_n u) (if a then 1 else 0)
    | [id; "CRC"; p] ->
      Printf.printf "%s CRC %s\n" id (string_of_n (crc32 (bytes_of_hex p)))
    | [id; "ENTRY"; t; i; ty; k; c; s; r; cmd] ->
      let e = { e_term = n_of_string t; e_index = n_of_string i; e_type = z_of_string ty;
                e_key = n_of_string k; e_client = n_of_string c; e_series = n_of_string s;
                e_responded = n_of_string r; e_cmd = bytes_tok cmd } in
      let enc = encode e in
      Printf.printf "%s ENC %s SIZE %s UPPER %s DEC %s\n" id (hex_of_bytes enc)
        (match size_checked e with Some s -> string_of_n s | None -> "panic")
        (string_of_n (size_upper_limit e)) (show_dec (decode enc))
    | [id; "BIG"; t; i; ty; k; c; sr; r; n; _fill] ->
      (* entry with a Cmd of n equal bytes: only functions of the length are run *)
      let e = { e_term = n_of_string t; e_index = n_of_string i; e_type = z_of_string ty;
                e_key = n_of_string k; e_client = n_of_string c; e_series = n_of_string sr;
                e_responded = n_of_string r; e_cmd = [] } in
      let n = n_of_string n in
      Printf.printf "%s BIG SIZE %s UPPER %s LEN %s HEAD %s DEC %s\n" id
        (match size_checked_len e n with Some s -> string_of_n s | None -> "panic")
        (string_of_n (size_upper_limit_len n)) (string_of_n (size_len e n)) (hex_of_bytes (encode_head e n))
        (match decode_outcome_len e n with Some _ -> "ok" | None -> "max")
    | [id; "DECODE"; h] ->
      Printf.printf "%s DEC %s\n" id (show_dec (decode (bytes_of_hex h)))
    | [] -> ()
    | _ -> Printf.printf "? unparsed: %s\n" line)
