open Model
open Util

let show_dec = function
  | DecOk (e, n) ->
    Printf.sprintf "ok %s %s %s %s %s %s %s %s %s"
      (string_of_n e.e_term) (string_of_n e.e_index) (string_of_z e.e_type)
      (string_of_n e.e_key) (string_of_n e.e_client) (string_of_n e.e_series)
      (string_of_n e.e_responded) (hex_of_bytes e.e_cmd) (string_of_n n)
  | DecEOF -> "eof"
  | DecBadHeader p -> "bad " ^ string_of_n p
  | DecMax -> "max"

let () =
  iter_lines (fun line ->
    match split_ws line with
    | [id; "ENTRY"; t; i; ty; k; c; s; r; cmd] ->
      let e = { e_term = n_of_string t; e_index = n_of_string i; e_type = z_of_string ty;
                e_key = n_of_string k; e_client = n_of_string c; e_series = n_of_string s;
                e_responded = n_of_string r; e_cmd = bytes_of_hex cmd } in
      let enc = encode e in
      Printf.printf "%s ENC %s SIZE %s UPPER %s DEC %s\n" id (hex_of_bytes enc)
        (string_of_n (size e)) (string_of_n (size_upper_limit e)) (show_dec (decode enc))
    | [id; "DECODE"; h] ->
      Printf.printf "%s DEC %s\n" id (show_dec (decode (bytes_of_hex h)))
    | [] -> ()
    | _ -> Printf.printf "? unparsed: %s\n" line)
