open Model
open Util

let show_dec = function
  | DecOk (e, n) ->
    Printf.sprintf "ok %s %s %s %s %s %s %s %s %s"
      (string_of_n e.e_term) (string_of_n e.e_index) (string_of_z e.e_type)
      (string_of_n e.e_key) (string_of_n e.e_client) (string_of_n e.e_series)
      (string_of_n e.e_responded) (hex_of_bytes e.e_cmd) (string_of_n n)
  | DecEOF -> "eof"
  | DecBadHeader p -> "bad " ^ string_of_n p
  | DecMax -> "max"

let bool_of_string01 s = (s = "1")

let show_hdr (h : header) =
  Printf.sprintf "%s %s %s" (string_of_n h.h_method) (string_of_n h.h_size) (string_of_n h.h_crc)

let show_hdr_dec = function
  | Some h -> "ok " ^ show_hdr h
  | None -> "none"

let show_verdict = function
  | Delivered (h, p, rest) ->
    Printf.sprintf "ok %s %s %s" (show_hdr h) (hex_of_bytes p) (string_of_n (nlen rest))
  | Poison -> "poison"
  | Bad -> "bad"
  | IOErr -> "io"

let () =
  iter_lines (fun line ->
    match split_ws line with
    | [id; "HDR"; m; sz; c] ->
      let h = { h_method = n_of_string m; h_size = n_of_string sz; h_crc = n_of_string c } in
      let b = encode_header h in
      Printf.printf "%s HDR %s DEC %s\n" id (hex_of_bytes b) (show_hdr_dec (decode_header b))
    | [id; "HDRDEC"; hx] ->
      Printf.printf "%s HDRDEC %s\n" id (show_hdr_dec (decode_header (bytes_of_hex hx)))
    | [id; "WRITE"; m; c; enc; _rb; p] ->
      let h = { h_method = n_of_string m; h_size = N0; h_crc = n_of_string c } in
      let e = bool_of_string01 enc in
      let s = write_message h (bytes_of_hex p) e in
      Printf.printf "%s WRITE %s READ %s\n" id (hex_of_bytes s) (show_verdict (read_frame e s))
    | [id; "FRAME"; enc; _rb; _tag; s] ->
      Printf.printf "%s FRAME %s\n" id (show_verdict (read_frame (bool_of_string01 enc) (bytes_of_hex s)))
    | [id; "CRC"; p] ->
      Printf.printf "%s CRC %s\n" id (string_of_n (crc32 (bytes_of_hex p)))
    | [id; "ENTRY"; t; i; ty; k; c; s; r; cmd] ->
      let e = { e_term = n_of_string t; e_index = n_of_string i; e_type = z_of_string ty;
                e_key = n_of_string k; e_client = n_of_string c; e_series = n_of_string s;
                e_responded = n_of_string r; e_cmd = bytes_of_hex cmd } in
      let enc = encode e in
      Printf.printf "%s ENC %s SIZE %s UPPER %s DEC %s\n" id (hex_of_bytes enc)
        (string_of_n (size e)) (string_of_n (size_upper_limit e)) (show_dec (decode enc))
    | [id; "DECODE"; h] ->
      Printf.printf "%s DEC %s\n" id (show_dec (decode (bytes_of_hex h)))
    | [] -> ()
    | _ -> Printf.printf "? unparsed: %s\n" line)
