(* R17L model driver: runs the extracted Model/RateQuiesce.v on the cases of harness/cmd/r17l.
   case: <id> rl max=<n> | T ; I <sz> ; D <sz> ; S <sz> ; X ; F <replica> <sz> ; L
         <id> q en=<0|1> et=<n> | T ; R <0|1> ; E ; F
   obs:  <id> <i>:<letter>[=<0|1>]                                                     *)
open Model
open Util

let ns = n_of_string

let field hf key =
  let r = ref None in
  List.iter (fun f ->
    match String.index_opt f '=' with
    | Some i when String.sub f 0 i = key -> r := Some (String.sub f (i + 1) (String.length f - i - 1))
    | _ -> ()) hf;
  match !r with Some v -> v | None -> failwith ("missing field " ^ key)

let ans letter = function
  | Some true -> letter ^ "=1" | Some false -> letter ^ "=0" | None -> letter

let () =
  iter_lines (fun line ->
    match Str.bounded_split (Str.regexp_string " | ") line 2 with
    | [head; body] ->
      let hf = split_ws head in
      let id = List.hd hf in
      let ops = List.map split_ws (Str.split (Str.regexp_string " ; ") body) in
      if List.nth hf 1 = "rl" then begin
        let r = ref (rl_new (ns (field hf "max"))) in
        List.iteri (fun i f ->
          let o = match f with
            | ["T"] -> RTick | ["I"; s] -> RIncrease (ns s) | ["D"; s] -> RDecrease (ns s)
            | ["S"; s] -> RSet (ns s) | ["X"] -> RReset | ["F"; k; s] -> RFollower (ns k, ns s)
            | ["L"] -> RLimited | _ -> failwith "bad rl op" in
          let (r1, a) = rl_step !r o in
          r := r1;
          Printf.printf "%s %d:%s\n" id i (ans (List.hd f) a)) ops
      end else begin
        let q = ref (q_new (field hf "en" = "1") (ns (field hf "et"))) in
        List.iteri (fun i f ->
          let o = match f with
            | ["T"] -> QTick | ["R"; h] -> QRecord (h = "1") | ["E"] -> QTryEnter | ["F"] -> QTakeFlag
            | _ -> failwith "bad q op" in
          let (q1, a) = q_step !q o in
          q := q1;
          Printf.printf "%s %d:%s\n" id i (ans (List.hd f) a)) ops
      end
    | _ -> ())
