(* C08 model driver: replays the cases of harness/cmd/c08 on the extracted
   Model/RsmApply.v (accumulator instance) and prints what the harness prints for
   the real twin replicas. The driver mirrors the harness' world: the log, the
   pending task, replica A (uninterrupted), replica B (cut), B's compaction
   bookkeeping (nstep), the newest recorded image of each replica and, for the
   on-disk kind, what the fake on-disk state machine has made durable. *)
open Model
open Util

exception Panic

let ncmp a b = if N.ltb a b then -1 else if N.ltb b a then 1 else 0
let nle a b = N.leb a b
let nlt a b = N.ltb a b
let n1 = n_of_int 1
let show_result (v, d) upd =
  Printf.sprintf "ok v=%s d=%s upd=%d" (string_of_n v) (hex_of_bytes d) upd

let show_event = function
  | EvApp ONoop -> "noop upd=0"
  | EvApp OPanic -> "panic"
  | EvApp (ORegistered c) | EvApp (OUnregistered c) -> Printf.sprintf "ok v=%s d=- upd=0" (string_of_n c)
  | EvApp ORegisterRejected | EvApp OUnregisterRejected | EvApp ORejected -> "rej upd=0"
  | EvApp (OApplied r) -> show_result r 1
  | EvApp (OCached r) -> show_result r 0
  | EvApp OIgnored -> "none upd=0"
  | EvSkip -> "none upd=0"
  | EvCC true -> "cc 1 upd=0"
  | EvCC false -> "cc 0 upd=0"

let show_session s =
  let h = List.sort (fun (a, _) (b, _) -> ncmp a b) s.s_history in
  Printf.sprintf "[%s:%s:%s]" (string_of_n s.s_client) (string_of_n s.s_responded)
    (String.concat "," (List.map (fun (k, (v, d)) ->
       Printf.sprintf "%s=%s/%s" (string_of_n k) (string_of_n v) (hex_of_bytes d)) h))

let show_table t =
  String.concat " " (("cap=" ^ string_of_n t.t_cap) :: List.map show_session t.t_list)

let show_amap m =
  "{" ^ String.concat "," (List.map (fun (k, a) -> string_of_n k ^ "=" ^ hex_of_bytes a) m) ^ "}"

let show_mem m0 =
  let m = rsm_observe_mem m0 in
  Printf.sprintf "ccid=%s a=%s r={%s} n=%s w=%s" (string_of_n m.m_ccid) (show_amap m.m_addresses)
    (String.concat "," (List.map string_of_n m.m_removed)) (show_amap m.m_nonvotings) (show_amap m.m_witnesses)

let show_obs st =
  Printf.sprintf "sm=%s idx=%s term=%s mem=(%s) sess=(%s)" (string_of_n st.r_sm) (string_of_n st.r_index)
    (string_of_n st.r_term) (show_mem st.r_mem) (show_table st.r_tab)

let show_aux st =
  Printf.sprintf "last=%s/%s odinit=%s od=%s ssidx=%s" (string_of_n st.r_last_index) (string_of_n st.r_last_term)
    (string_of_n st.r_od_init) (string_of_n st.r_od) (string_of_n st.r_ss_index)

let split_ops (s : string) : string list =
  List.filter (fun x -> String.trim x <> "")
    (List.map String.trim (Str.split (Str.regexp_string " ; ") s))

let rec drop n l = if n <= 0 then l else match l with [] -> [] | _ :: r -> drop (n - 1) r
let rec take n l = if n <= 0 then [] else match l with [] -> [] | x :: r -> x :: take (n - 1) r

type replica = {
  mutable st : (n, acc_result) state0;
  mutable ns : nstate;                         (* node bookkeeping *)
  mutable img : (acc_result image * n) option; (* newest recorded image + the user SM's own applied index in its data *)
  mutable lag : bool;
  mutable uapplied : n;                        (* on-disk user SM: in-memory applied index *)
  mutable disk : n * n;
  mutable reqi : n;                            (* node.ss.reqSnapshotIndex: applied index of the last handled user request *)                        (* on-disk user SM: durable (acc, applied) *)
  name : string;
}

let run_case id kind cap ordered overhead ops =
  let k = ref 0 in
  let emit s = Printf.printf "%s %d %s\n" id !k s in
  let cfg = { c_ondisk = (kind = "disk"); c_ordered = ordered } in
  let mk name = { st = rsm_init cap N0; ns = ninit; img = None; lag = false; uapplied = N0; disk = (N0, N0); reqi = N0; name } in
  let a = mk "A" and b = mk "B" in
  (* initial Recover of a new node: opens the on-disk state machine at index 0 *)
  if cfg.c_ondisk then begin a.st <- rsm_open_ondisk a.st N0; b.st <- rsm_open_ondisk b.st N0 end;
  let log = ref [] (* reversed *) and nlog = ref 0 and flushed = ref 0 and term = ref n1 in
  let entries_from i j = (* indexes i+1 .. j of the log, i.e. positions i..j-1 *)
    take (j - i) (drop i (List.rev !log)) in
  let sync r = if cfg.c_ondisk then r.disk <- (r.st.r_sm, r.uapplied) in
  (* one task; prints the results of the entries it applied *)
  let deliver_quiet r ents =
    if ents = [] then [] else begin
      let before = r.st.r_index in
      match rsm_apply_task cfg r.st ents with
      | Err _ -> raise Panic
      | Ok (st', evs) ->
        r.st <- st';
        let applied = List.filter (fun e -> nlt before e.en_index) ents in
        let lines = List.map2 (fun e ev ->
          (match ev with EvApp (OApplied _) -> r.uapplied <- e.en_index | _ -> ());
          Printf.sprintf "%s.r %s %s" r.name (string_of_n e.en_index) (show_event ev)) applied evs in
        lines
    end in
  let deliver r ents = List.iter emit (deliver_quiet r ents) in
  let pending () = entries_from !flushed !nlog in
  let flush () =
    let ents = pending () in
    if ents <> [] then begin
      flushed := !nlog;
      deliver a ents;
      if not b.lag then deliver b ents
    end in
  let catch_up r from split =
    let from = if from < 1 then 1 else from in
    if from <= !flushed then begin
      let ents = ref (entries_from (from - 1) !flushed) in
      let split = if split = 0 then List.length !ents else split in
      while !ents <> [] do
        deliver r (take split !ents);
        ents := drop split !ents
      done
    end in
  let new_removals r before =
    let now = List.length r.ns.n_removed in
    let fresh = List.rev (take (now - before) r.ns.n_removed) in
    List.iter (fun (v, _) -> emit (Printf.sprintf "%s.compact %s" r.name (string_of_n v))) fresh in
  let remove_log r =
    let before = List.length r.ns.n_removed in
    r.ns <- nstep overhead r.ns NRemoveLog;
    before in
  let record r img ua =
    match r.img with
    | Some (old, _) when nle img.i_index old.i_index -> ()
    | _ -> r.img <- Some (img, ua) in
  (* node.doSave on replica r; [during] = entries that reach r while the user SaveSnapshot runs *)
  let do_save r (q : ssreq) during =
    let applied = r.st.r_last_index in
    let late () = List.iter emit (deliver_quiet r during) in
    if (not q.q_exported) && nle applied r.ns.n_ss_index then begin late (); N0 end
    else begin
      let kind = if q.q_exported then SSExported else SSRegular in
      match rsm_prepare cfg kind r.st with
      | Err _ -> raise Panic
      | Ok OutOfDate ->
        r.ns <- nstep overhead r.ns (NSave (q, applied, SaveSoftError, true)); late (); N0
      | Ok (Prepared (m, st1)) ->
        r.st <- st1;
        let ua = r.uapplied in
        (* concurrentSave: sync between prepare and the save *)
        if kind <> SSRegular || true then (if cfg.c_ondisk then sync r);
        let lines = deliver_quiet r during in
        let (img, st2) = rsm_finish_save cfg m r.st in
        r.st <- st2;
        List.iter emit lines;
        if not q.q_exported then record r img ua;
        r.ns <- nstep overhead r.ns (NSave (q, applied, SaveOk m.mt_index, true));
        m.mt_index
    end in
  let after_recover r (img : acc_result image) ua loaded =
    if loaded then r.uapplied <- ua;
    if cfg.c_ondisk then begin
      sync r;
      (* snapshotter.Shrink(ss.Index): the recorded snapshot's file is replaced *)
      (match r.img with
       | Some (i, u) when i.i_index = img.i_index -> r.img <- Some (rsm_shrink i, u)
       | _ -> ())
    end in
  (* did recover load the user data? (full image on a path that loads) *)
  let loads init st (img : acc_result image) =
    if img.i_witness || img.i_dummy then false
    else if not cfg.c_ondisk then true
    else if img.i_shrunk then false
    else if init then img.i_imported || nlt st.r_od_init img.i_od
    else nlt st.r_od img.i_od in
  let small (x : n) : int = if nlt (n_of_int 1000000) x then 1000000 else int_of_n x in
  (* crash + restart of B up to and including removeLog; prints the line tagged [tag] *)
  let restart_b tag keep =
    if cfg.c_ondisk && keep = "1" then b.disk <- (b.st.r_sm, b.uapplied);
    b.ns <- nstep overhead b.ns NRestart;
    b.reqi <- N0;
    let fresh = rsm_init cap (if cfg.c_ondisk then fst b.disk else N0) in
    let fresh = if cfg.c_ondisk then rsm_open_ondisk fresh (snd b.disk) else fresh in
    b.uapplied <- (if cfg.c_ondisk then snd b.disk else N0);
    b.st <- fresh;
    let idx =
      match b.img with
      | None -> N0
      | Some (img, ua) ->
        let l = loads true b.st img in
        (match rsm_recover cfg true b.st img with
         | Err _ -> raise Panic
         | Ok RecOutOfDate -> N0
         | Ok (Recovered st') -> b.st <- st'; after_recover b img ua l; img.i_index) in
    b.ns <- nstep overhead b.ns (NRecover (idx <> N0, true));
    let before = remove_log b in
    emit (Printf.sprintf "%s from=%s %s | %s" tag (string_of_n idx) (show_obs b.st) (show_aux b.st));
    new_removals b before;
    int_of_n idx in
  (* a fresh follower that applied [pre] entries (fewer than src) *)
  let new_follower src pre =
    let c = mk "C" in
    c.st <- rsm_open_ondisk c.st N0;
    let src_idx = int_of_n src.st.r_index in
    let pre = if src_idx = 0 then 0 else min pre (src_idx - 1) in
    if pre > 0 then ignore (deliver_quiet c (entries_from 0 pre));
    c in
  (* replica c asks [src] for a streamed snapshot, installs it and gets the rest of the log.
     decide: the request goes through NodeHost.sendMessage, which for an on-disk replica always
     asks for a stream (never the recorded file); it needs a snapshot record on src *)
  let stream_into src c ov decide =
    if decide && src.ns.n_lr_snapshot = N0 then emit "M no-record"
    (* node.canStream -> StateMachine.ReadyToStream *)
    else if not (rsm_ready_to_stream cfg src.st) then emit "M refused"
    else match rsm_prepare cfg SSStreaming src.st with
      | Err _ | Ok OutOfDate -> raise Panic
      | Ok (Prepared (m, st1)) ->
        src.st <- st1;
        let ua = src.uapplied in
        let (img, st2) = rsm_finish_save cfg m src.st in
        (* GetEmptyLRUSession is a table of rsm.LRUMaxSessionCount, the package variable the
           harness sets to the capacity of the case (the model's constant is the source default) *)
        let img = { img with i_sessions = (cap, []) } in
        src.st <- st2;
        emit (Printf.sprintf "M stream idx=%s term=%s od=%s" (string_of_n img.i_index) (string_of_n img.i_term) (string_of_n img.i_od));
        if nle img.i_index c.st.r_last_index then emit "M nothing-to-install"
        else begin
          record c img ua;
          c.ns <- nstep overhead c.ns (NReceive img.i_index);
          let l = loads false c.st img in
          let got =
            match rsm_recover cfg false c.st img with
            | Err _ -> raise Panic
            | Ok RecOutOfDate -> N0
            | Ok (Recovered st') -> c.st <- st'; after_recover c img ua l; img.i_index in
          c.ns <- nstep overhead c.ns (NRecover (got <> N0, false));
          let before = remove_log c in
          emit (Printf.sprintf "M installed from=%s %s | %s" (string_of_n got) (show_obs c.st) (show_aux c.st));
          new_removals c before;
          c.lag <- false;
          let g = int_of_n got in
          let from = if g = 0 then int_of_n c.st.r_index + 1 else if g + 1 > ov then g + 1 - ov else 1 in
          catch_up c from 0;
          emit (c.name ^ " " ^ show_obs c.st)
        end in
  let stream_to src ov pre =
    if kind <> "disk" then emit "M n/a" else stream_into src (new_follower src pre) ov false in
  (* B installs the image A's LogReader holds (saved by an earlier save of A: an image is a value,
     nothing A applies later changes it), then gets the rest of the log *)
  let install_from tag head ov split =
    flush ();
    match a.img with
    | Some (img, ua) when nlt b.st.r_last_index img.i_index ->
      record b img ua;
      b.ns <- nstep overhead b.ns (NReceive img.i_index);
      let l = loads false b.st img in
      let got =
        match rsm_recover cfg false b.st img with
        | Err _ -> raise Panic
        | Ok RecOutOfDate -> N0
        | Ok (Recovered st') -> b.st <- st'; after_recover b img ua l; img.i_index in
      b.ns <- nstep overhead b.ns (NRecover (got <> N0, false));
      let before = remove_log b in
      emit (Printf.sprintf "%s %s from=%s %s | %s" tag head (string_of_n got) (show_obs b.st) (show_aux b.st));
      new_removals b before;
      b.lag <- false;
      let g = int_of_n got in
      let from = if g = 0 then int_of_n b.st.r_index + 1 else if g + 1 > ov then g + 1 - ov else 1 in
      catch_up b from split
    | _ -> emit (Printf.sprintf "%s %s nothing-to-install" tag head) in
  let op o =
    match split_ws o with
    | ["a"; c; s; r; cmd] ->
      incr nlog;
      let se = { e_client = n_of_string c; e_series = n_of_string s; e_responded = n_of_string r; e_cmd = bytes_of_hex cmd } in
      log := { en_index = n_of_int !nlog; en_term = !term; en_body = BApp se } :: !log
    | ["c"; t; rep; addr; ccid; init] ->
      incr nlog;
      let c = { cc_ccid = n_of_string ccid; cc_type = z_of_string t; cc_replica = n_of_string rep;
                cc_addr = bytes_of_hex addr; cc_init = (init = "1") } in
      log := { en_index = n_of_int !nlog; en_term = !term; en_body = BCC c } :: !log
    | ["t"] -> term := util_add !term n1
    | ["b"] -> flush ()
    | ["y"] -> flush (); sync a; sync b
    | ["L"] -> flush (); b.lag <- true
    | ["S"; kd; ovr; oh; ci; during] ->
      let q = { q_exported = (kd = "x"); q_override = (ovr = "1"); q_overhead = n_of_string oh; q_cindex = n_of_string ci } in
      let during = during = "1" && kind <> "reg" in
      let pend = pending () in
      flushed := !nlog;
      deliver a pend;
      let inside = if pend <> [] && not b.lag then (if during then pend else (deliver b pend; [])) else [] in
      let idx = do_save b q inside in
      emit (Printf.sprintf "S idx=%s pending=%s" (string_of_n idx) (string_of_n b.ns.n_compact_to));
      let before = remove_log b in
      new_removals b before
    | ["R"; ov; keep; split] ->
      let ov = small (n_of_string ov) and split = int_of_string split in
      flush ();
      let idx = restart_b "R" keep in
      b.lag <- false;
      catch_up b (if idx + 1 > ov then idx + 1 - ov else 1) split
    | ["T"; j; kd; ovr; oh; ci] ->
      let q = { q_exported = (kd = "x"); q_override = (ovr = "1"); q_overhead = n_of_string oh; q_cindex = n_of_string ci } in
      let j = n_of_string j in
      let pend = pending () in
      flushed := !nlog;
      deliver a pend;
      let idx = ref N0 and fired = ref false in
      if pend <> [] && not b.lag then begin
        let todo = List.filter (fun e -> nlt b.st.r_index e.en_index) pend in
        (* StateMachine.handle: a task of NoOP-session updates on a concurrent machine goes through handleBatch *)
        let is_batched = List.for_all (fun e ->
          match e.en_body with BApp se -> se.e_client <> N0 && se.e_series = N0 | BCC _ -> false) todo in
        if kind <> "reg" && todo <> [] && not is_batched then begin
          match rsm_entries_to_apply pend b.st.r_index with
          | Err _ -> raise Panic
          | Ok es ->
            let first = (List.hd es).en_index in
            let target = if nlt n1 j then N.sub (util_add first j) n1 else first in
            let lines = ref [] in
            List.iter (fun e ->
              match rsm_run_entries cfg b.st [e] with
              | Ok (st', [ev]) ->
                b.st <- st';
                (match ev with EvApp (OApplied _) -> b.uapplied <- e.en_index | _ -> ());
                lines := Printf.sprintf "%s.r %s %s" b.name (string_of_n e.en_index) (show_event ev) :: !lines;
                let reported = (match ev with EvApp OIgnored | EvSkip -> false | _ -> true) in
                if reported && not !fired && nle target e.en_index then begin
                  fired := true;
                  idx := do_save b q []
                end
              | _ -> raise Panic) es;
            (match rsm_set_last_applied b.st es with
             | Err _ -> raise Panic
             | Ok st' -> b.st <- st');
            List.iter emit (List.rev !lines)
        end else deliver b pend
      end;
      if not !fired then idx := do_save b q [];
      emit (Printf.sprintf "T idx=%s pending=%s" (string_of_n !idx) (string_of_n b.ns.n_compact_to));
      let before = remove_log b in
      new_removals b before
    | ["M"; ov; pre] ->
      flush ();
      stream_to b (small (n_of_string ov)) (small (n_of_string pre))
    | ["N"; kd; ovr; oh; ci] ->
      (* the save waits for the state machine lock the Update holds: it describes the replica after the task *)
      let q = { q_exported = (kd = "x"); q_override = (ovr = "1"); q_overhead = n_of_string oh; q_cindex = n_of_string ci } in
      let pend = pending () in
      flushed := !nlog;
      deliver a pend;
      if pend <> [] && not b.lag then deliver b pend;
      let idx = do_save b q [] in
      emit (Printf.sprintf "N idx=%s pending=%s" (string_of_n idx) (string_of_n b.ns.n_compact_to));
      let before = remove_log b in
      new_removals b before
    | ["O"] ->
      flush ();
      (match b.img with
       | Some (img, _) when b.ns.n_lr_snapshot <> N0 ->
         (* StateMachine.doRecover: a snapshot at or below the applied index is refused *)
         let got =
           match rsm_recover cfg false b.st img with
           | Err _ -> raise Panic
           | Ok RecOutOfDate -> N0
           | Ok (Recovered st') -> b.st <- st'; img.i_index in
         b.ns <- nstep overhead b.ns (NRecover (got <> N0, false));
         let before = remove_log b in
         emit (Printf.sprintf "O from=%s %s | %s" (string_of_n got) (show_obs b.st) (show_aux b.st));
         new_removals b before
       | _ -> emit "O no-record")
    | ["Q"; kd; ovr; oh; ci] ->
      let q = { q_exported = (kd = "x"); q_override = (ovr = "1"); q_overhead = n_of_string oh; q_cindex = n_of_string ci } in
      flush ();
      let tag, idx =
        (* SnapshotOption.Validate *)
        if q.q_override && q.q_overhead <> N0 && q.q_cindex <> N0 then "invalid", N0
        (* node.handleSnapshot: a request at the applied index of the previous one is ignored *)
        else if (not q.q_exported) && b.st.r_last_index = b.reqi then "rejected", N0
        else begin
          b.reqi <- b.st.r_last_index;
          let idx = do_save b q [] in
          (if idx = N0 then "rejected" else "completed"), idx
        end in
      emit (Printf.sprintf "Q %s idx=%s pending=%s" tag (string_of_n idx) (string_of_n b.ns.n_compact_to));
      let before = remove_log b in
      new_removals b before
    | ["D"; _; _] when kind <> "disk" -> emit "D n/a"
    | ["D"; ov; pre] ->
      let ov = small (n_of_string ov) and pre = small (n_of_string pre) in
      flush ();
      let c1 = new_follower b pre in
      let c2 = new_follower b 0 in
      if not (rsm_ready_to_stream cfg b.st) then emit "D refused"
      else begin
        (* the second request arrives while the first is queued: refused and reported, raft retries *)
        emit "D second accepted=false reported=true";
        stream_into b c1 ov false;
        stream_into b c2 ov false
      end
    | ["Z"; _; _] ->
      flush ();
      if kind = "disk" then begin
        if not (rsm_ready_to_stream cfg b.st) then emit "Z refused"
        else match rsm_prepare cfg SSStreaming b.st with
          | Err _ | Ok OutOfDate -> raise Panic
          | Ok (Prepared (m, st1)) ->
            b.st <- st1;
            emit (Printf.sprintf "Z stream idx=%s term=%s od=%s" (string_of_n m.mt_index) (string_of_n m.mt_term) (string_of_n m.mt_od));
            emit "Z done"
      end else begin
        if b.ns.n_lr_snapshot = N0 then emit "Z no-record"
        else begin
          emit ("Z file idx=" ^ string_of_n b.ns.n_lr_snapshot);
          emit "Z done"
        end
      end
    | ["V"; _; _] when kind <> "disk" -> emit "V n/a"
    | ["V"; ov; pre] ->
      let ov = small (n_of_string ov) and pre = small (n_of_string pre) in
      flush ();
      ignore (do_save a default_req []);
      if nle a.st.r_index b.st.r_last_index then emit "V B-not-behind" else stream_into a b ov true;
      b.lag <- false;
      catch_up b (int_of_n b.st.r_index + 1) 0;
      stream_into b (new_follower b pre) ov true
    | ["W"; _; _; _] when kind <> "disk" -> emit "W n/a"
    | ["W"; ov; keep; pre] ->
      let ov = small (n_of_string ov) and pre = small (n_of_string pre) in
      flush ();
      let idx = restart_b "W" keep in
      let window = int_of_n b.st.r_od_init + 1 in
      let pos = ref idx in
      let continue = ref true in
      while !continue do
        if !pos <= window && b.st.r_mem.m_addresses <> [] then stream_to b ov pre;
        if !pos >= !flushed then continue := false
        else if !pos < window then begin deliver b (entries_from !pos (!pos + 1)); incr pos end
        else begin deliver b (entries_from !pos !flushed); pos := !flushed end
      done;
      b.lag <- false
    | ["I"; ov; split] ->
      flush ();
      let saved = do_save a default_req [] in
      install_from "I" ("saved=" ^ string_of_n saved) (small (n_of_string ov)) (int_of_string split)
    | ["P"] ->
      flush ();
      let saved = do_save a default_req [] in
      emit ("P saved=" ^ string_of_n saved)
    | ["K"; ov; split] ->
      install_from "K" "record" (small (n_of_string ov)) (int_of_string split)
    | w :: _ -> emit ("? " ^ w)
    | [] -> () in
  let failed = ref false in
  (try
    List.iteri (fun i o -> if not !failed then begin
      k := i;
      try op o with Panic -> (emit "panic"; failed := true)
    end) ops
  with Panic -> ());
  k := List.length ops;
  if not !failed then begin
    try
      flush ();
      if b.lag then begin b.lag <- false; catch_up b (int_of_n b.st.r_index + 1) 0 end;
      emit ("A " ^ show_obs a.st);
      emit ("A.aux " ^ show_aux a.st);
      emit ("B " ^ show_obs b.st);
      emit ("B.aux " ^ show_aux b.st)
    with Panic -> emit "panic"
  end

let () =
  iter_lines (fun line ->
    if String.trim line <> "" then begin
      let head, body =
        match Str.bounded_split (Str.regexp_string " |") line 2 with
        | [h; b] -> h, b
        | [h] -> h, ""
        | _ -> line, "" in
      match split_ws head with
      | [] -> ()
      | [id] -> Printf.printf "%s BADCASE\n" id
      | id :: kind :: hdr ->
        let get k d = List.fold_left (fun acc h ->
          let kl = String.length k in
          if String.length h > kl && String.sub h 0 kl = k then n_of_string (String.sub h kl (String.length h - kl)) else acc) d hdr in
        let cap = get "cap=" (n_of_int 4) in
        let ordered = get "ord=" N0 = n1 in
        let overhead = get "oh=" N0 in
        if cap = N0 || not (List.mem kind ["reg"; "conc"; "disk"]) then Printf.printf "%s BADCASE\n" id
        else run_case id kind cap ordered overhead (split_ops body)
    end)
