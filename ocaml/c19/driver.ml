open Model
open Util

(* ---------- parsing ---------- *)
let parse_entry (s : string) : entry =
  match String.split_on_char ':' s with
  | [i; t; k; l] -> { e_index = n_of_string i; e_term = n_of_string t; e_key = n_of_string k; e_len = n_of_string l }
  | _ -> failwith ("bad entry: " ^ s)
let parse_ents (s : string) : entry list =
  if s = "-" then [] else List.map parse_entry (String.split_on_char ',' s)

type cmd = Op of op | QT of n | QE of n * n * n | XS of n | LR of n * n | CC | Bad of string

let parse_op (s : string) : cmd =
  match split_ws s with
  | ["A"; e] -> Op (OAppend (parse_ents e))
  | ["R"; li; lt; c; e] -> Op (OReplicate (n_of_string li, n_of_string lt, n_of_string c, parse_ents e))
  | ["C"; k] -> Op (OCommitTo (n_of_string k))
  | ["G"; m; la] -> Op (OGetUpdate (m = "1", n_of_string la))
  | ["P"] -> Op OPersist
  | ["K"] -> Op OCommit
  | ["S"; i; t] -> Op (ORestore (n_of_string i, n_of_string t))
  | ["X"; k] -> Op (OCompact (n_of_string k))
  | ["XS"; k] -> XS (n_of_string k)            (* the store alone drops entries <= k *)
  | ["LR"; f; n] -> LR (n_of_string f, n_of_string n)   (* LogReader.SetRange called directly *)
  | ["CC"; _] -> CC                             (* concurrent readers/no-op writers on the LogReader: no state change *)
  | ["QT"; i] -> QT (n_of_string i)
  | ["QE"; lo; hi; mx] -> QE (n_of_string lo, n_of_string hi, n_of_string mx)
  | _ -> Bad s

(* split "a ; b ; c" *)
let split_ops (s : string) : string list =
  let parts = Str.split (Str.regexp_string " ; ") s in
  List.filter (fun x -> String.trim x <> "") (List.map String.trim parts)

(* ---------- printing ---------- *)
let sn = string_of_n
let show_entry e = Printf.sprintf "%s:%s:%s:%s" (sn e.e_index) (sn e.e_term) (sn e.e_key) (sn e.e_len)
let show_ents l = if l = [] then "-" else String.concat "," (List.map show_entry l)
let err_name = function
  | ECompacted -> "compacted" | EUnavailable -> "unavailable" | EGap -> "gap"
  | EBadRange -> "badrange" | ESnapOutOfDate -> "snapoutofdate"
let tag_name = function
  | PInMemLow -> "inmemlow" | PInMemHigh -> "inmemhigh" | PHole -> "hole" | PTermOrder -> "termorder"
  | PMarker -> "marker" | PIndexOOR -> "oor" | PAppliedTerm0 -> "appliedterm0" | PApplyIdx -> "applyidx"
  | PBoundLowHigh -> "boundlowhigh" | PBoundHigh -> "boundhigh" | PLogDBLen -> "logdblen"
  | PConflictCommitted -> "conflictcommitted" | PAppendCommitted -> "appendcommitted"
  | PCommitTo -> "committo" | PProcessed -> "processed" | PLastAppliedCommitted -> "lastappliedcommitted"
  | PLastAppliedProcessed -> "lastappliedprocessed" | PRestoreBack -> "restoreback"
  | PApplyNotCommitted -> "applynotcommitted" | PApplyNotSaved -> "applynotsaved"
  | PReaderGap -> "readergap" | PAppendGap -> "appendgap" | PDescribe -> "describe"
let show_res (f : 'a -> string) (r : 'a res) : string =
  match r with Ok a -> f a | Fail e -> "err:" ^ err_name e | Panic t -> "panic:" ^ tag_name t

let one = n_of_int 1
let nadd = util_add

(* predecessor on n through the extracted N.sub is not exported; count with ints for small ranges *)
let rec range_n (lo : n) (cnt : int) : n list = if cnt <= 0 then [] else lo :: range_n (nadd lo one) (cnt - 1)

let n_le a b = (N.leb a b)
let n_pred a = N.sub a one
let max64 = n_of_string "18446744073709551615"

let terms_view (w : world) : string =
  let f = el_first w.w_el w.w_lr and l = el_last w.w_el w.w_lr in
  let lo = n_pred f in
  (* indexes lo .. l+1 *)
  let rec go i acc guard =
    if guard > 400 then List.rev acc
    else if n_le i (nadd l one) then
      go (nadd i one) (show_res sn (el_term w.w_el w.w_lr w.w_st i) :: acc) (guard + 1)
    else List.rev acc in
  let l = go lo [] 0 in
  if l = [] then "-" else String.concat "," l

let digest (w : world) : string =
  let el = w.w_el in let im = el.el_im in
  let f = el_first el w.w_lr and l = el_last el w.w_lr in
  Printf.sprintf "f=%s l=%s c=%s p=%s s=%s m=%s a=%s:%s ss=%s im=%s lr=%s:%s:%s T=%s save=%s apply=%s has=%d all=%s q=%d rl=%s"
    (sn f) (sn l) (sn el.el_committed) (sn el.el_processed) (sn im.im_saved) (sn im.im_marker)
    (sn im.im_aidx) (sn im.im_aterm)
    (match im.im_snap with Some (i, t) -> sn i ^ ":" ^ sn t | None -> "-")
    (show_ents im.im_ents)
    (sn w.w_lr.lr_marker) (sn w.w_lr.lr_mterm) (sn w.w_lr.lr_len)
    (terms_view w)
    (show_ents (el_to_save el))
    (show_res show_ents (el_to_apply el w.w_lr w.w_st w.w_limit))
    (if el_has_to_apply el w.w_lr then 1 else 0)
    (show_res show_ents (el_get_entries el w.w_lr w.w_st f (nadd l one) max64))
    (List.length w.w_queue)
    (match im.im_rl with Some n -> sn n | None -> "-")

let show_ud (u : update) : string =
  let c = u.ud_uc in
  Printf.sprintf "ud:save=%s;apply=%s;more=%d;snap=%s;commit=%s;la=%s;fast=%d;uc=%s:%s:%s:%s:%s"
    (show_ents u.ud_save) (show_ents u.ud_apply) (if u.ud_more then 1 else 0)
    (match u.ud_snap with Some (i, t) -> sn i ^ ":" ^ sn t | None -> "-")
    (sn u.ud_commit) (sn u.ud_last_applied) (if u.ud_fast then 1 else 0)
    (sn c.uc_processed) (sn c.uc_last_applied) (sn c.uc_stable_to) (sn c.uc_stable_term) (sn c.uc_stable_snap)

(* ---------- spec cross-check (only while the sequence stays well-formed) ---------- *)
let spec_diff (w : world) (sp : spec) : string option =
  let el = w.w_el in
  let f = el_first el w.w_lr and l = el_last el w.w_lr in
  let chk name a b = if a = b then None else Some (name ^ " model=" ^ a ^ " spec=" ^ b) in
  let first_some l = List.fold_left (fun acc x -> match acc with Some _ -> acc | None -> Lazy.force x) None l in
  let terms_ok =
    let rec go i guard =
      if guard > 400 then None
      else if n_le i (nadd l (n_of_int 2)) then
        (match chk ("term " ^ sn i) (show_res sn (el_term el w.w_lr w.w_st i)) (sn (sp_term sp i)) with
         | Some d -> Some d | None -> go (nadd i one) (guard + 1))
      else None in
    go (n_pred (n_pred f)) 0 in
  first_some [
    lazy (chk "first" (sn f) (sn (sp_first sp)));
    lazy (chk "last" (sn l) (sn (sp_last sp)));
    lazy (chk "committed" (sn el.el_committed) (sn sp.sp_committed));
    lazy (chk "processed" (sn el.el_processed) (sn sp.sp_processed));
    lazy (chk "saved" (sn el.el_im.im_saved) (sn sp.sp_saved));
    lazy terms_ok;
    lazy (chk "all" (show_res show_ents (el_get_entries el w.w_lr w.w_st f (nadd l one) max64))
                    (show_res show_ents (sp_entries sp f (nadd l one) max64)));
    lazy (chk "all-limited" (show_res show_ents (el_get_entries el w.w_lr w.w_st f (nadd l one) (n_of_int 300)))
                    (show_res show_ents (sp_entries sp f (nadd l one) (n_of_int 300))));
    lazy (chk "save" (show_ents (el_to_save el)) (show_ents (sp_to_save sp)));
    lazy (chk "apply" (show_res show_ents (el_to_apply el w.w_lr w.w_st w.w_limit))
                      (show_res show_ents (sp_to_apply sp w.w_limit)));
    lazy (chk "has" (string_of_bool (el_has_to_apply el w.w_lr)) (string_of_bool (sp_has_to_apply sp)));
  ]

(* ---------- main ---------- *)
let run_case (id : string) (hdr : string list) (ops : string list) =
  match hdr with
  | "I" :: mi :: mt :: c :: lim :: wf :: ents :: opts ->
    let mi = n_of_string mi and mt = n_of_string mt and c = n_of_string c and lim = n_of_string lim in
    let ents = parse_ents ents in
    (* rl=N: a real rate limiter with MaxInMemLogSize N sits under inMemory; it accounts
       only if Enabled(): N > 0 and N <> MaxUint64. ss= / st= (slice capacity thresholds, the
       store under the LogReader) have no observable effect: the model ignores them *)
    let rlon = List.exists (fun o ->
      String.length o > 3 && String.sub o 0 3 = "rl=" &&
      (let v = String.sub o 3 (String.length o - 3) in v <> "0" && v <> "18446744073709551615")) opts in
    let skip = List.mem "st=front" opts in
    let w = ref (w_init_opt skip rlon mi mt ents c lim) in
    let sp = ref (sp_init mi mt ents c) in
    let spec_on = ref (wf = "1") in
    Printf.printf "%s init %s\n" id (digest !w);
    let check_spec k =
      if !spec_on then
        match spec_diff !w !sp with
        | Some d -> Printf.printf "%s %d SPEC-MISMATCH %s\n" id k d; spec_on := false
        | None -> () in
    check_spec (-1);
    (try
      List.iteri (fun k s ->
        match parse_op s with
        | Bad s -> Printf.printf "%s %d unparsed %s\n" id k s; raise Exit
        | QT i -> Printf.printf "%s %d term=%s\n" id k (show_res sn (el_term !w.w_el !w.w_lr !w.w_st i));
          if !spec_on then begin
            let a = show_res sn (el_term !w.w_el !w.w_lr !w.w_st i) and b = sn (sp_term !sp i) in
            if a <> b then Printf.printf "%s %d SPEC-MISMATCH term %s model=%s spec=%s\n" id k (sn i) a b
          end
        | QE (lo, hi, mx) ->
          Printf.printf "%s %d ents=%s\n" id k (show_res show_ents (el_get_entries !w.w_el !w.w_lr !w.w_st lo hi mx));
          if !spec_on then begin
            let a = show_res show_ents (el_get_entries !w.w_el !w.w_lr !w.w_st lo hi mx)
            and b = show_res show_ents (sp_entries !sp lo hi mx) in
            if a <> b then Printf.printf "%s %d SPEC-MISMATCH ents model=%s spec=%s\n" id k a b
          end
        | XS kk ->
          spec_on := false;
          let w0 = !w in
          w := { w0 with w_st = st_remove_to w0.w_st kk };
          Printf.printf "%s %d ok %s\n" id k (digest !w)
        | CC -> Printf.printf "%s %d ok %s\n" id k (digest !w)
        | LR (f, n) ->
          spec_on := false;
          let w0 = !w in
          (match lr_set_range w0.w_lr f n with
           | Ok lr -> w := { w0 with w_lr = lr }; Printf.printf "%s %d ok %s\n" id k (digest !w)
           | Fail e -> Printf.printf "%s %d err:%s\n" id k (err_name e); raise Exit
           | Panic t -> Printf.printf "%s %d panic:%s\n" id k (tag_name t); raise Exit)
        | Op o ->
          if !spec_on && not (wf_op !sp o) then spec_on := false;
          (match step !w o with
           | Ok w' ->
             w := w';
             if !spec_on then sp := sp_step lim !sp o;
             (match o with
              | OGetUpdate _ ->
                (match last_update w' with
                 | Some u -> Printf.printf "%s %d ok %s %s\n" id k (show_ud u) (digest w')
                 | None -> Printf.printf "%s %d ok noupdate %s\n" id k (digest w'))
              | _ -> Printf.printf "%s %d ok %s\n" id k (digest w'));
             check_spec k
           | Fail e -> Printf.printf "%s %d err:%s\n" id k (err_name e); raise Exit
           | Panic t -> Printf.printf "%s %d panic:%s\n" id k (tag_name t); raise Exit)
      ) ops
    with Exit -> ())
  | _ -> Printf.printf "%s unparsed header\n" id

let () =
  iter_lines (fun line ->
    let line = String.trim line in
    let line = if String.length line > 2 && String.sub line (String.length line - 2) 2 = " |"
      then String.sub line 0 (String.length line - 2) else line in
    if line <> "" then begin
      let (head, body) =
        match Str.bounded_split (Str.regexp_string " | ") line 2 with
        | [h; b] -> (h, b) | [h] -> (h, "") | _ -> (line, "") in
      match split_ws head with
      | id :: hdr -> run_case id hdr (split_ops body)
      | [] -> ()
    end)
