(* model side of the raft simulator: executes the same operation lists on the
   extracted RaftCore/RaftNode model and prints the same projections *)
open Model
open Util

let b2i b = if b then "1" else "0"
let compare_n a b = compare (int_of_n a) (int_of_n b)
let sn = string_of_n
let join sep l = String.concat sep l

let fmt_entry (e : entry) =
  Printf.sprintf "%s:%s:%s:%s:%s:%s:%s:%s" (sn e.e_index) (sn e.e_term) (sn e.e_type) (sn e.e_key)
    (sn e.e_client) (sn e.e_series) (sn e.e_resp) (hex_of_bytes e.e_cmd)
let fmt_entries es = "[" ^ join "," (List.map fmt_entry es) ^ "]"

let split_on c s = String.split_on_char c s
let parse_entry s =
  match split_on ':' s with
  | [i; t; ty; k; c; se; r; cmd] ->
    { e_index = n_of_string i; e_term = n_of_string t; e_type = n_of_string ty; e_key = n_of_string k;
      e_client = n_of_string c; e_series = n_of_string se; e_resp = n_of_string r; e_cmd = bytes_of_hex cmd }
  | _ -> failwith ("bad entry " ^ s)
let parse_entries s =
  let s = String.sub s 1 (String.length s - 2) in
  if s = "" then [] else List.map parse_entry (split_on ',' s)

let join_ids ids = if ids = [] then "." else join "+" (List.map sn ids)
let split_ids s = if s = "." || s = "" then [] else List.map n_of_string (split_on '+' s)

let fmt_snapshot (s : snapshot) =
  if s.ss_index = N0 then "-" else
  Printf.sprintf "%s/%s/%s/%s/%s/%s/%s/%s/%s" (sn s.ss_index) (sn s.ss_term) (join_ids s.ss_addrs)
    (join_ids s.ss_nonvotings) (join_ids s.ss_witnesses) (b2i s.ss_witness) (b2i s.ss_dummy) (b2i s.ss_has_file) (sn s.ss_ccid)
let parse_snapshot t =
  if t = "-" then empty_snapshot else
  match split_on '/' t with
  | [i; tm; a; nv; w; wi; d; f; cc] ->
    { ss_index = n_of_string i; ss_term = n_of_string tm; ss_addrs = split_ids a; ss_nonvotings = split_ids nv;
      ss_witnesses = split_ids w; ss_witness = (wi = "1"); ss_dummy = (d = "1"); ss_has_file = (f = "1"); ss_ccid = n_of_string cc }
  | [i; tm; a; nv; w; wi; d; f] ->
    { ss_index = n_of_string i; ss_term = n_of_string tm; ss_addrs = split_ids a; ss_nonvotings = split_ids nv;
      ss_witnesses = split_ids w; ss_witness = (wi = "1"); ss_dummy = (d = "1"); ss_has_file = (f = "1"); ss_ccid = N0 }
  | _ -> failwith ("bad snapshot " ^ t)

let replace_char a b s = String.map (fun c -> if c = a then b else c) s

let fmt_msg (m : msg) =
  Printf.sprintf "%s:%s:%s:%s:%s:%s:%s:%s:%s:%s:%s:%s" (sn m.m_type) (sn m.m_to) (sn m.m_from) (sn m.m_term)
    (sn m.m_logterm) (sn m.m_logindex) (sn m.m_commit) (b2i m.m_reject) (sn m.m_hint) (sn m.m_hinthigh)
    (replace_char ':' '_' (fmt_entries m.m_entries)) (fmt_snapshot m.m_snapshot)

let parse_msg s =
  (* 12 fields, the last may not contain ':' *)
  match split_on ':' s with
  | [ty; to_; from; term; lt; li; c; rej; h; hh; ents; snap] ->
    { m_type = n_of_string ty; m_to = n_of_string to_; m_from = n_of_string from; m_term = n_of_string term;
      m_logterm = n_of_string lt; m_logindex = n_of_string li; m_commit = n_of_string c; m_reject = (rej = "1");
      m_hint = n_of_string h; m_hinthigh = n_of_string hh;
      m_entries = parse_entries (replace_char '_' ':' ents); m_snapshot = parse_snapshot snap }
  | _ -> failwith ("bad msg " ^ s)

let msg_group (m : msg) =
  match int_of_n m.m_type with
  | 14 | 15 | 26 | 27 | 24 -> 0
  | 12 | 13 | 16 -> 1
  | 17 | 18 -> 2
  | 19 | 20 -> 3
  | _ -> 4
let fmt_msgs ms =
  join " " (List.mapi (fun g name ->
    name ^ "=[" ^ join "," (List.sort compare (List.map fmt_msg (List.filter (fun m -> msg_group m = g) ms))) ^ "]")
    ["mvote"; "mrepl"; "mhb"; "mread"; "mother"])

let rstate_num = function RRetry -> "0" | RWait -> "1" | RReplicate -> "2" | RSnapshot -> "3"

let project (r : raft) : string =
  let l = r.r_log in
  let b = Buffer.create 1024 in
  let add = Buffer.add_string b in
  add (Printf.sprintf "n=%s role=%s term=%s vote=%s lead=%s appl=%s comm=%s proc=%s first=%s last=%s mterm=%s saved=%s"
    (sn r.r_id) (sn (role_num r.r_role)) (sn r.r_term) (sn r.r_vote) (sn r.r_leader) (sn r.r_applied)
    (sn l.l_committed) (sn l.l_processed) (sn (log_first l)) (sn (log_last l)) (sn l.l_marker_term) (sn l.l_saved_to));
  add (Printf.sprintf " tick=%s/%s/%s/%s flags=%s%s%s%s xfer=%s" (sn r.r_election_tick) (sn r.r_heartbeat_tick)
    (sn r.r_rand_timeout) (sn r.r_tick_count) (b2i r.r_is_transfer_target) (b2i r.r_pending_cc) (b2i r.r_quiesce)
    (b2i r.r_snapshotting) (sn r.r_transfer_target));
  (match l.l_pending_snap, l.l_ents with
   | Some _, [] when false -> add " ents=compacted"
   | _ -> add (" ents=" ^ fmt_entries l.l_ents));
  (match l.l_pending_snap with Some s -> add (" psnap=" ^ fmt_snapshot s) | None -> add " psnap=-");
  let peers kind m = List.map (fun (id, p) ->
    Printf.sprintf "%d:%s:%s:%s:%s:%s:%s:%s:%s" kind (sn id) (sn p.rm_match) (sn p.rm_next) (rstate_num p.rm_state)
      (sn p.rm_snapidx) (b2i p.rm_active) (sn p.rm_ack_tick) (b2i p.rm_ack_rej)) m in
  add (" peers=[" ^ join "," (peers 0 r.r_remotes @ peers 1 r.r_nonvotings @ peers 2 r.r_witnesses) ^ "]");
  add (" votes=[" ^ join "," (List.map (fun (id, v) -> sn id ^ ":" ^ b2i v) r.r_votes) ^ "]");
  add (" reads=[" ^ join "," (List.map (fun rs ->
    Printf.sprintf "%s:%s:%s:%s:%s" (sn (fst rs.rs_ctx)) (sn (snd rs.rs_ctx)) (sn rs.rs_index) (sn rs.rs_from)
      (join_ids (List.sort compare_n rs.rs_confirmed))) r.r_reads) ^ "]");
  add (" " ^ fmt_msgs r.r_msgs);
  add (" ready=[" ^ join "," (List.map (fun (i, (lo, hi)) -> Printf.sprintf "%s:%s:%s" (sn i) (sn lo) (sn hi)) r.r_ready) ^ "]");
  add (" dent=" ^ fmt_entries r.r_dropped_entries);
  add (" dreads=[" ^ join "," (List.map (fun (lo, hi) -> sn lo ^ ":" ^ sn hi) r.r_dropped_reads) ^ "]");
  (match r.r_leader_update with Some (lid, t) -> add (Printf.sprintf " lu=%s:%s" (sn lid) (sn t)) | None -> add " lu=-");
  let ((pt, pv), pc) = r.r_prev_state in
  add (Printf.sprintf " prev=%s:%s:%s" (sn pt) (sn pv) (sn pc));
  (match r.r_log_query with
   | Some (((fi, la), err), es) -> add (Printf.sprintf " lq=%s:%s:%s:%s" (sn fi) (sn la) (b2i err) (fmt_entries es))
   | None -> add " lq=-");
  Buffer.contents b

let fmt_update (u : update) =
  let st = match u.u_state with Some ((t, v), c) -> Printf.sprintf "%s:%s:%s" (sn t) (sn v) (sn c) | None -> "-" in
  Printf.sprintf " upd=state=%s;save=%s;apply=%s;more=%s;snap=%s;fast=%s" st (fmt_entries u.u_entries_to_save)
    (fmt_entries u.u_committed_entries) (b2i u.u_more)
    (match u.u_snapshot with Some s -> fmt_snapshot s | None -> "-") (b2i u.u_fast_apply)

let kind_of = function "N" -> NonVoting | "W" -> Witness | _ -> Follower

let split_op s =
  let s = String.trim s in
  match String.rindex_opt s '@' with
  | None -> (s, N0)
  | Some i -> (String.trim (String.sub s 0 i), n_of_string (String.trim (String.sub s (i + 1) (String.length s - i - 1))))

let header_val hdr key =
  let v = ref "0" in
  List.iter (fun f -> match split_on '=' f with [k; x] when k = key -> v := x | _ -> ()) (split_ws hdr);
  !v

(* split "a ; b ; c" *)
let split_ops s =
  let parts = ref [] and cur = Buffer.create 64 in
  let n = String.length s in
  let i = ref 0 in
  while !i < n do
    if !i + 2 < n && s.[!i] = ' ' && s.[!i+1] = ';' && s.[!i+2] = ' ' then begin
      parts := Buffer.contents cur :: !parts; Buffer.clear cur; i := !i + 3
    end else begin Buffer.add_char cur s.[!i]; incr i end
  done;
  parts := Buffer.contents cur :: !parts;
  List.rev !parts

let () =
  iter_lines (fun line ->
    match Str.bounded_split (Str.regexp_string " | ") line 2 with
    | [head; body] ->
      let cid, hdr = (match Str.bounded_split (Str.regexp " ") head 2 with [a; b] -> (a, b) | _ -> (head, "")) in
      let et = n_of_string (header_val hdr "et") and ht = n_of_string (header_val hdr "ht") in
      let cq = header_val hdr "cq" = "1" and pv = header_val hdr "pv" = "1" in
      let nodes : (string, node) Hashtbl.t = Hashtbl.create 8 in
      let stop = ref false in
      List.iteri (fun k opt ->
        if not !stop then begin
          let (op, rt) = split_op opt in
          if op <> "" then begin
            let f = Array.of_list (split_ws op) in
            let id = f.(1) in
            let nv i = n_of_string f.(i) in
            let with_oracle nd = { nd with nd_raft = { nd.nd_raft with r_oracle = rt } } in
            let upd = ref None in
            let result : node option =
              (match f.(0) with
               | "START" ->
                 let init = split_ids f.(3) in
                 let cmds = if f.(4) = "-" then [] else List.map bytes_of_hex (split_on ',' f.(4)) in
                 Some (launch (n_of_string id) (kind_of f.(2)) et ht cq pv init cmds rt)
               | name ->
                 (match Hashtbl.find_opt nodes id with
                  | None -> None
                  | Some nd0 ->
                    let nd = with_oracle nd0 in
                    let onr g = Some (on_raft g nd) in
                    (match name with
                     | "RESTART" -> Some (node_restart nd rt)
                     | "T" -> onr peer_tick
                     | "Q" -> onr peer_quiesced_tick
                     | "M" -> let m = parse_msg f.(2) in onr (fun r -> peer_handle r m)
                     | "P" -> onr (fun r -> peer_propose r
                                [{ e_term = N0; e_index = N0; e_type = N0; e_key = nv 2; e_client = nv 3;
                                   e_series = nv 4; e_resp = N0; e_cmd = bytes_of_hex f.(5) }])
                     | "CC" -> onr (fun r -> peer_propose_cc r (nv 2) (bytes_of_hex f.(5)))
                     | "ACC" -> onr (fun r -> peer_apply_cc r (nv 2) (nv 3))
                     | "RCC" -> onr peer_reject_cc
                     | "NLA" -> onr (fun r -> { r with r_applied = nv 2 })
                     | "R" -> onr (fun r -> peer_read_index r (nv 2, nv 3))
                     | "LT" -> onr (fun r -> peer_leader_transfer r (nv 2))
                     | "LQ" -> onr (fun r -> peer_query_raft_log r (nv 2) (nv 3))
                     | "UN" -> onr (fun r -> peer_unreachable r (nv 2))
                     | "SS" -> onr (fun r -> peer_snapshot_status r (nv 2) (f.(3) = "1"))
                     | "RR" -> let s = parse_snapshot f.(2) in onr (fun r -> peer_restore_remotes r s)
                     | "SNAP" -> Some (node_snapshot nd (parse_snapshot f.(2)) (nv 3))
                     | "U" -> let (nd', u) = node_update nd (f.(2) = "1") (nv 3) in upd := Some u; Some nd'
                     | "MUT" -> Some nd
                     | _ -> None))) in
            (match result with
             | None -> Printf.printf "%s %d PANIC\n" cid k; stop := true
             | Some nd ->
               if nd.nd_raft.r_panic then begin Printf.printf "%s %d PANIC\n" cid k; stop := true end
               else begin
                 Hashtbl.replace nodes id nd;
                 Printf.printf "%s %d %s %s%s\n" cid k f.(0) (project nd.nd_raft)
                   (match !upd with Some u -> fmt_update u | None -> "")
               end)
          end
        end) (split_ops body)
    | _ -> ())
