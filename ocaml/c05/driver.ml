(* C05 model driver: runs the extracted Model/Session.v (acc_* instance) on the
   cases of harness/cmd/c05 and prints what the harness prints for the real code. *)
open Model
open Util

let show_result (v, d) upd =
  Printf.sprintf "A v=%s d=%s rej=0 ign=0 upd=%d" (string_of_n v) (hex_of_bytes d) upd

let show_outcome = function
  | ONoop -> "A v=0 d=- rej=0 ign=1 upd=0"
  | OPanic -> "panic"
  | ORegistered c -> Printf.sprintf "A v=%s d=- rej=0 ign=0 upd=0" (string_of_n c)
  | OUnregistered c -> Printf.sprintf "A v=%s d=- rej=0 ign=0 upd=0" (string_of_n c)
  | ORegisterRejected | OUnregisterRejected | ORejected -> "A v=0 d=- rej=1 ign=0 upd=0"
  | OApplied r -> show_result r 1
  | OCached r -> show_result r 0
  | OIgnored -> "none upd=0"

let show_session s =
  let h = List.sort (fun (a, _) (b, _) -> if N.ltb a b then -1 else if N.ltb b a then 1 else 0) s.s_history in
  Printf.sprintf "[%s:%s:%s]" (string_of_n s.s_client) (string_of_n s.s_responded)
    (String.concat "," (List.map (fun (k, (v, d)) ->
       Printf.sprintf "%s=%s/%s" (string_of_n k) (string_of_n v) (hex_of_bytes d)) h))

let show_sessions cap l =
  String.concat " " (("cap=" ^ string_of_n cap) :: List.map show_session l)

let show_table t = show_sessions t.t_cap t.t_list

(* split on " ; " *)
let is_e = function ("E" | "EN" | "ES") :: _ -> true | _ -> false

let split_ops (s : string) : string list =
  List.filter (fun x -> String.trim x <> "")
    (List.map String.trim (Str.split (Str.regexp_string " ; ") s))

let () =
  iter_lines (fun line ->
    if String.trim line <> "" then begin
      let head, body =
        match Str.bounded_split (Str.regexp_string " | ") line 2 with
        | [h; b] -> h, b
        | [h] -> (if Filename.check_suffix h " |" then String.sub h 0 (String.length h - 2) else h), ""
        | _ -> line, "" in
      match split_ws head with
      | [] -> ()
      | id :: hdr ->
        let cap = List.fold_left (fun acc h ->
          if String.length h > 4 && String.sub h 0 4 = "cap=" then n_of_string (String.sub h 4 (String.length h - 4)) else acc)
          (n_of_int 4) hdr in
        if (match hdr with "e2e" :: _ -> true | _ -> false) then begin
          (* end-to-end client program: the entries the session API puts into the log, in
             order, through the session model and the client.Session model *)
          let st = ref (acc_init (if cap = N0 then n_of_int 1 else cap)) in
          let next_id = ref 1000 in
          let sessions : (string, (csession * bool) ref) Hashtbl.t = Hashtbl.create 8 in
          let outcome_str name = function
            | OApplied (v, d) | OCached (v, d) -> Printf.sprintf "%s ok %s %s" name (string_of_n v) (hex_of_bytes d)
            | ORejected -> name ^ " rejected"
            | OIgnored -> name ^ " timeout"
            | _ -> name ^ " ?" in
          let propose name cs cmd =
            let e = { e_client = cs.c_client; e_series = cs.c_series; e_responded = cs.c_responded; e_cmd = cmd } in
            let (st', out) = acc_step !st e in
            st := st'; outcome_str name out in
          let k = ref (-1) in
          List.iter (fun o ->
            let w = split_ws o in
            if w <> [] then begin
              incr k;
              let k = !k in
              let live name = match Hashtbl.find_opt sessions name with
                | Some r when not (snd !r) -> Some r | _ -> None in
              match w with
              | ["REG"; name] ->
                let cid = n_of_int !next_id in
                incr next_id;
                let e = { e_client = cid; e_series = series_id_for_register; e_responded = N0; e_cmd = [] } in
                let (st', out) = acc_step !st e in
                st := st';
                (match out, c_prepare_for_propose (c_new cid) with
                 | ORegistered _, Some cs -> Hashtbl.replace sessions name (ref (cs, false)); Printf.printf "%s %d REG ok\n" id k
                 | _ -> Printf.printf "%s %d REG fail\n" id k)
              | [("P" | "STALE") as op; name; cmdhex] ->
                let cmd = bytes_of_hex cmdhex in
                (match live name with
                 | Some r when cmd <> [] ->
                   let (cs, _) = !r in
                   if op = "P" then Printf.printf "%s %d %s\n" id k (propose "P" cs cmd)
                   else if cs.c_responded = N0 then Printf.printf "%s %d STALE none\n" id k
                   else begin
                     let prev = fst (util_divmod (util_add cs.c_responded (n_of_string "18446744073709551615")) (n_of_string "18446744073709551616")) in
                     ignore prev;
                     let resp1 = snd (util_divmod (util_add cs.c_responded (n_of_string "18446744073709551615")) (n_of_string "18446744073709551616")) in
                     let stale = { c_client = cs.c_client; c_series = cs.c_responded; c_responded = resp1 } in
                     Printf.printf "%s %d %s\n" id k (propose "STALE" stale cmd)
                   end
                 | _ -> Printf.printf "%s %d %s invalid\n" id k op)
              | ["P"; _] | ["STALE"; _] -> Printf.printf "%s %d %s invalid\n" id k (List.hd w)
              | ["DONE"; name] ->
                (match live name with
                 | Some r ->
                   (match c_proposal_completed (fst !r) with
                    | Some cs' -> r := (cs', false); Printf.printf "%s %d DONE ok\n" id k
                    | None -> Printf.printf "%s %d DONE panic\n" id k)
                 | None -> Printf.printf "%s %d DONE invalid\n" id k)
              | ["CLOSE"; name] ->
                (match live name with
                 | Some r ->
                   let (cs, _) = !r in
                   r := (cs, true);
                   let e = { e_client = cs.c_client; e_series = series_id_for_unregister; e_responded = cs.c_responded; e_cmd = [] } in
                   let (st', out) = acc_step !st e in
                   st := st';
                   Printf.printf "%s %d CLOSE %s\n" id k (match out with OUnregistered _ -> "ok" | _ -> "rejected")
                 | None -> Printf.printf "%s %d CLOSE invalid\n" id k)
              | ["READ"] -> Printf.printf "%s %d READ %s T %s\n" id k (string_of_n !st.st_sm) (show_table !st.st_tab)
              | ["GUARD"] -> Printf.printf "%s %d GUARD getsession=panic propose=panic noop=ok\n" id k
              | [("HOST" | "SNAPSHOT" | "RESTARTHOST" | "XFER") as op; _] -> Printf.printf "%s %d %s ok\n" id k op
              | x :: _ -> Printf.printf "%s %d ? %s\n" id k x
              | [] -> ()
            end) (split_ops body);
          Printf.printf "%s end %s\n" id (string_of_n !st.st_sm)
        end else
        if List.exists (fun h -> String.length h > 7 && String.sub h 0 7 = "client=") hdr then begin
          let get k = List.fold_left (fun acc h ->
            let kl = String.length k in
            if String.length h > kl && String.sub h 0 kl = k then Some (n_of_string (String.sub h kl (String.length h - kl))) else acc) None hdr in
          let cid = match get "client=" with Some c -> c | None -> N0 in
          let raw = get "series=" <> None || get "resp=" <> None in
          let init =
            if raw then Some { c_client = cid; c_series = (match get "series=" with Some x -> x | None -> N0);
                               c_responded = (match get "resp=" with Some x -> x | None -> N0) }
            else c_prepare_for_propose (c_new cid) in
          match init with
          | None -> Printf.printf "%s init panic\n" id
          | Some s0 ->
            let cs = ref s0 in
            List.iteri (fun k o ->
              match o with
              | "P" -> Printf.printf "%s %d P %s %s %s\n" id k (string_of_n !cs.c_client) (string_of_n !cs.c_series) (string_of_n !cs.c_responded)
              | "C" | "PROP" | "REG" | "UNREG" ->
                let f = match o with "C" -> c_proposal_completed | "PROP" -> c_prepare_for_propose
                                   | "REG" -> c_prepare_for_register | _ -> c_prepare_for_unregister in
                (match f !cs with
                 | None -> Printf.printf "%s %d %s panic\n" id k o
                 | Some s' -> cs := s'; Printf.printf "%s %d %s ok %s %s\n" id k o (string_of_n s'.c_series) (string_of_n s'.c_responded))
              | w -> Printf.printf "%s %d ? %s\n" id k w) (split_ops body)
        end
        else if cap = N0 then Printf.printf "%s BADCAP\n" id
        else begin
          let st = ref (acc_init cap) in
          (* INSTALL k: [lag_old] = the state of the lagging replica (it stops applying);
             !st goes on as the state of the replica that applies the log *)
          (* SAVE / RESTART: [image] = the latest snapshot image of this replica (taken by
             SAVE, SNAP or installed), [since] = the entries it applied after it (newest first) *)
          let image = ref None and since = ref [] in
          let lag_old = ref None and lag_left = ref 0 and install_due = ref false in
          let do_install k =
            match !lag_old with
            | None -> ()
            | Some old ->
              lag_old := None; lag_left := 0;
              (match acc_snapshot !st with
               | None -> Printf.printf "%s %d INSTALLFAIL\n" id k
               | Some (((sv, smb) as sn), _) ->
                 (match acc_install old sn with
                  | None -> Printf.printf "%s %d INSTALLFAIL\n" id k
                  | Some st' ->
                    Printf.printf "%s %d S %s sm=%s\n" id k (show_sessions (fst sv) (snd sv)) (string_of_n (le_dec smb));
                    st := st'; image := Some sn; since := [];
                    Printf.printf "%s %d T %s sm=%s\n" id k (show_table st'.st_tab) (string_of_n st'.st_sm))) in
          let pend = ref None (* (line, entries left) of a SAVE whose observation is not printed yet *) in
          let close_save () = match !pend with
            | Some (line, _) -> pend := None; print_string line
            | None -> () in
          let ops = split_ops body in
          List.iteri (fun k o ->
            if !install_due then begin install_due := false; do_install (k - 1) end;
            (match !pend with
             | Some (_, left) when left <= 0 || (not (is_e (split_ws o))) -> close_save ()
             | _ -> ());
            let w = split_ws o in
            if List.mem "kind=disk" hdr && (match w with ("SNAP" | "SAVE" | "RESTART" | "INSTALL") :: _ -> true | _ -> false) then
              Printf.printf "%s %d skip\n" id k
            else
            if !lag_left > 0 && (not (is_e w)) then
              Printf.printf "%s %d skip\n" id k
            else
            match w with
            | ["B"] | ["B"; _] ->
              Printf.printf "%s %d B %d\n" id k (match w with [_; x] -> int_of_string x | _ -> 1)
            | ["INSTALL"] | ["INSTALL"; _] ->
              let n = (match w with [_; x] -> int_of_string x | _ -> 1) in
              if n > 0 then begin lag_old := Some !st; lag_left := n end;
              Printf.printf "%s %d INSTALL %d\n" id k n
            | [("E" | "EN" | "ES"); c; s; r; cmd] ->
              let e = { e_client = n_of_string c; e_series = n_of_string s;
                        e_responded = n_of_string r; e_cmd = bytes_of_hex cmd } in
              let (st', out) = acc_step !st e in
              st := st';
              if !lag_left = 0 then begin
                since := e :: !since;
                (match !pend with Some (l, left) -> pend := Some (l, left - 1) | None -> ())
              end;
              if !lag_left > 0 then begin
                Printf.printf "%s %d L %s\n" id k (show_outcome out);
                decr lag_left;
                if !lag_left = 0 then install_due := true
              end else
              Printf.printf "%s %d %s\n" id k (show_outcome out)
            | ["SNAP"] ->
              (match acc_snapshot !st with
               | None -> Printf.printf "%s %d SNAPFAIL\n" id k
               | Some (((sv, smb) as sn), _) ->
                 Printf.printf "%s %d S %s sm=%s\n" id k (show_sessions (fst sv) (snd sv)) (string_of_n (le_dec smb));
                 (match acc_restore sn with
                  | None -> Printf.printf "%s %d SNAPFAIL\n" id k
                  | Some st' ->
                    st := st'; image := Some sn; since := [];
                    Printf.printf "%s %d T %s sm=%s\n" id k (show_table st'.st_tab) (string_of_n st'.st_sm)))
            | ["SAVE"] | ["SAVE"; _] ->
              let n = (match w with [_; x] -> int_of_string x | _ -> 0) in
              (match acc_snapshot !st with
               | None -> Printf.printf "%s %d SAVEFAIL\n" id k
               | Some (((sv, smb) as sn), st') ->
                 st := st'; image := Some sn; since := [];
                 pend := Some (Printf.sprintf "%s %d S %s sm=%s\n" id k (show_sessions (fst sv) (snd sv)) (string_of_n (le_dec smb)), n))
            | ["OLD"] ->
              Printf.printf "%s %d OLD %s\n" id k (if !image = None then "none" else "refused")
            | ["RESTART"] ->
              let base = (match !image with Some sn -> acc_restore sn | None -> Some (acc_init cap)) in
              (match base with
               | None -> Printf.printf "%s %d RESTARTFAIL\n" id k
               | Some b ->
                 Printf.printf "%s %d R %s sm=%s\n" id k (show_table b.st_tab) (string_of_n b.st_sm);
                 let st' = List.fold_left (fun s e -> fst (acc_step s e)) b (List.rev !since) in
                 st := st';
                 Printf.printf "%s %d T %s sm=%s\n" id k (show_table st'.st_tab) (string_of_n st'.st_sm))
            | ["H"] | ["Q"; _] ->
              (match acc_save_table !st.st_tab with
               | None -> Printf.printf "%s %d %s panic\n" id k (List.hd w)
               | Some (_, t') ->
                 st := { st_tab = t'; st_sm = !st.st_sm };
                 Printf.printf "%s %d %s ok\n" id k (List.hd w))
            | ["D"] ->
              Printf.printf "%s %d T %s sm=%s\n" id k (show_table !st.st_tab) (string_of_n !st.st_sm)
            | ["CAP"] -> Printf.printf "%s %d CAP %s\n" id k (string_of_n default_cap)
            | w :: _ -> Printf.printf "%s %d ? %s\n" id k w
            | [] -> ()) ops;
          close_save ();
          if !lag_left > 0 || !install_due then do_install (List.length ops);
          Printf.printf "%s end T %s sm=%s\n" id (show_table !st.st_tab) (string_of_n !st.st_sm)
        end
    end)
