(* R21 model driver: the extracted Model/RoleApi.v on the cases of harness/cmd/r21.
   case:  <id> prop=<P> v= cq= pv= snap= seed= | op ; op ; ...
   For every op the line the harness prints when code and model agree:
     A / AS <role> <api>   verdict of api_verdict src_guards (HReady / HNoShard), tables of the witness
     CFG <n> <nv>          src_start_replica
     CHK                   payload entries in witness_store of the LOAD batches so far, Lookup calls
                           the sweep made on the witness (api_calls_lookup), leaders named twice (0)
     everything else       ok
   Under prop=C03 the C18 fields are masked with -, under prop=C18 the C03 field. *)
open Model
open Util

let api_of = function
  | "propose" | "sync_propose" | "nu_propose" -> Propose true
  | "propose_sess" -> Propose false
  | "session_register" | "sync_get_session" | "sync_close_session" -> ProposeSession
  | "read_index" | "sync_read" | "membership" | "nu_read" -> ReadIndex
  | "stale_read" -> StaleRead
  | "snapshot" | "sync_snapshot" | "snapshot_opts" -> Snapshot (true, false, false)
  | "snapshot_badopt" -> Snapshot (false, false, false)
  | "snapshot_exported" -> Snapshot (true, true, true)
  | "snapshot_exported_nodir" -> Snapshot (true, true, false)
  | "leader_transfer" -> LeaderTransfer true
  | "leader_transfer_zero" -> LeaderTransfer false
  | "query_log" -> QueryLog true
  | "query_log_badrange" -> QueryLog false
  | "add_replica" | "add_nonvoting" | "add_witness" | "sync_add_nonvoting" -> ConfigChange (false, true)
  | "add_badaddr" -> ConfigChange (false, false)
  | "delete_replica" | "sync_delete_replica" -> ConfigChange (true, true)
  | "compaction" -> Compaction
  | s -> failwith ("unknown api " ^ s)

let role_of = function "W" -> Witness | "N" -> NonVoting | _ -> Voter

let verdict_name = function
  | Accepted -> "accepted" | ErrClosed -> "closed" | ErrShardNotFound -> "notfound"
  | ErrShardNotReady -> "notready" | ErrShardNotInitialized -> "notinit"
  | ErrInvalidOperation -> "invalid" | ErrInvalidOption -> "badoption" | ErrInvalidRange -> "badrange"
  | ErrInvalidAddress -> "badaddress" | ErrInvalidTarget -> "badtarget" | ErrDirNotExist -> "nodir"
  | Panics -> "panic" | Free -> "free"

let () =
  iter_lines (fun line ->
    match Str.bounded_split (Str.regexp_string " | ") line 2 with
    | [head; body] ->
      let hf = split_ws head in
      let id = List.hd hf in
      let prop = List.fold_left (fun acc kv ->
        match String.index_opt kv '=' with
        | Some k when String.sub kv 0 k = "prop" -> String.sub kv (k + 1) (String.length kv - k - 1)
        | _ -> acc) "ALL" (List.tl hf) in
      let wants tag = prop = "ALL" || prop = tag in
      let mask tag s = if wants tag then s else "-" in
      let batches = ref [] and next = ref 0 and lookups = ref 0 in
      List.iteri (fun i o ->
        match split_ws o with
        | [("A" | "AS") as op; role; api] ->
          let r = role_of role and a = api_of api in
          let st = if op = "AS" then HNoShard else HReady in
          let v = api_verdict src_guards r st a in
          let tables = if role = "W" then (match api_enqueues src_guards r st a with None -> "0" | Some _ -> "1") else "-" in
          if role = "W" && api_calls_lookup src_guards r st a then incr lookups;
          Printf.printf "%s %d:%s role=%s api=%s verdict=%s tables=%s\n" id i op role api
            (mask "C18" (verdict_name v)) (mask "C18" tables)
        | ["CFG"; n; nv] ->
          let c = { sc_witness = true; sc_nonvoting = (nv = "1"); sc_snapshot_entries = n_of_string n } in
          Printf.printf "%s %d:CFG verdict=%s\n" id i
            (mask "C18" (match src_start_replica c with Started -> "started" | StartRefused -> "refused"))
        | ["LOAD"; n] ->
          let b = List.init (int_of_string n) (fun _ ->
            incr next;
            { e_term = n_of_int 1; e_index = n_of_int !next; e_type = N0; e_key = n_of_int (1000 + !next);
              e_client = n_of_int 7; e_series = N0; e_resp = N0; e_cmd = [n_of_int 76; n_of_int (!next land 255)] }) in
          batches := !batches @ [b];
          Printf.printf "%s %d:LOAD ok\n" id i
        | ["CHK"] ->
          let wp = int_of_n (payload_entries (witness_store !batches)) in
          Printf.printf "%s %d:CHK wpayload=%s wsm=%s multi=%s\n" id i
            (mask "C18" (string_of_int wp)) (mask "C18" (string_of_int !lookups)) (mask "C03" "0")
        | op :: _ -> Printf.printf "%s %d:%s ok\n" id i op
        | [] -> ()) (Str.split (Str.regexp_string " ; ") body)
    | _ -> ())
