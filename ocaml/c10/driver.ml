open Model
open Util

(* node index -> (shard, replica); must match nodeIDs in harness/cmd/c10/ops.go *)
let node_ids = [| (1, 1); (17, 1); (1, 2); (2, 1) |]
let nid_of (i : int) : n * n = let (s, r) = node_ids.(i) in (n_of_int s, n_of_int r)

exception Bad

let num s = try n_of_string s with _ -> raise Bad
let node s = let i = (try int_of_string s with _ -> raise Bad) in
  if i < 0 || i >= Array.length node_ids then raise Bad else i

(* u = n term vote commit ssidx ssterm sstag i0 k (term tag len){k} *)
let parse_update (toks : string list) : int * update =
  match toks with
  | n :: t :: v :: c :: si :: st :: sg :: i0 :: k :: rest ->
    let k = (try int_of_string k with _ -> raise Bad) in
    if List.length rest <> 3 * k then raise Bad;
    let i0 = num i0 in
    let rec ents i idx l = if i = 0 then [] else match l with
      | te :: tg :: ln :: r ->
        { e_index = idx; e_term = num te; e_tag = num tg; e_len = num ln }
        :: ents (i - 1) (util_add idx (n_of_int 1)) r
      | _ -> raise Bad in
    let ni = node n in
    (ni, { u_node = nid_of ni; u_st = { st_term = num t; st_vote = num v; st_commit = num c };
           u_ss = { ss_index = num si; ss_term = num st; ss_tag = num sg };
           u_ents = ents k i0 rest })
  | _ -> raise Bad

let split_on (sep : string) (l : string list) : string list list =
  let rec go cur acc = function
    | [] -> List.rev (List.rev cur :: acc)
    | x :: t -> if x = sep then go [] (List.rev cur :: acc) t else go (x :: cur) acc t in
  go [] [] l

type parsed = Mut of string * op * bool | Qry | BadOp

let parse_op (text : string) : parsed =
  try
    match split_ws text with
    | "SAVE" :: rest ->
      let ups = List.map parse_update (split_on "+" rest) in
      if ups = [] then raise Bad;
      let extra = List.length ups <= 1 || List.for_all (fun (i, _) -> i <= 2) ups in
      Mut ("SAVE", OSave (List.map snd ups), extra)
    | ["SNAP"; n; i; t; g] ->
      Mut ("SNAP", OSnap (nid_of (node n), { ss_index = num i; ss_term = num t; ss_tag = num g }), true)
    | ["IMPORT"; n; i; t; g] ->
      Mut ("IMPORT", OImport (nid_of (node n), { ss_index = num i; ss_term = num t; ss_tag = num g }), true)
    | ["REMTO"; n; i] -> Mut ("REMTO", ORemTo (nid_of (node n), num i), true)
    | ["REMNODE"; n] -> Mut ("REMNODE", ORemNode (nid_of (node n)), true)
    | ["REOPEN"] -> Mut ("REOPEN", OReopen, true)
    | ["Q"; n; _; _; _] -> ignore (node n); Qry
    | ["RRS"; n; _] -> ignore (node n); Qry
    | ["GS"; n] -> ignore (node n); Qry
    | _ -> BadOp
  with Bad -> BadOp

let show_ent (e : entry) =
  Printf.sprintf "%s:%s:%s:%s" (string_of_n e.e_index) (string_of_n e.e_term)
    (string_of_n e.e_tag) (string_of_n e.e_len)
let show_ents (es : entry list) : string =
  if es = [] then "[]" else "[" ^ String.concat " " (List.map show_ent es) ^ "]"

let show_st (s : hstate) =
  Printf.sprintf "st=%s,%s,%s" (string_of_n s.st_term) (string_of_n s.st_vote) (string_of_n s.st_commit)

let show_raw = function
  | RIter (es, sz) -> Printf.sprintf "%s %s" (show_ents es) (string_of_n sz)
  | RState (st, f, c) -> Printf.sprintf "%s first=%s count=%s" (show_st st) (string_of_n f) (string_of_n c)
  | RNoSavedLog -> "nostate"
  | RSnap None -> "none"
  | RSnap (Some ss) -> Printf.sprintf "%s %s %s" (string_of_n ss.ss_index) (string_of_n ss.ss_term) (string_of_n ss.ss_tag)
  | RPanic -> "panic"

let split_ops (body : string) : string list =
  let parts = Str.split (Str.regexp_string " ; ") body in
  List.filter (fun s -> String.trim s <> "") parts

(* ---- KV call trace ---- *)
let show_key (k : key) =
  Printf.sprintf "%s:%s:%s:%s" (string_of_n k.k_tag) (string_of_n k.k_shard)
    (string_of_n k.k_replica) (string_of_n k.k_index)
let show_bent (e : entry) = "e" ^ String.concat "." [string_of_n e.e_index; string_of_n e.e_term; string_of_n e.e_tag; string_of_n e.e_len]
let show_value = function
  | VEntry e -> show_bent e
  | VState s -> Printf.sprintf "s%s.%s.%s" (string_of_n s.st_term) (string_of_n s.st_vote) (string_of_n s.st_commit)
  | VMax i -> "m" ^ string_of_n i
  | VSnap ss -> Printf.sprintf "n%s.%s.%s" (string_of_n ss.ss_index) (string_of_n ss.ss_term) (string_of_n ss.ss_tag)
  | VBoot -> "b"
  | VBatch es -> "[" ^ String.concat "," (List.map show_bent es) ^ "]"
let show_wop = function
  | WPut (k, v) -> Printf.sprintf "P(%s)=%s" (show_key k) (show_value v)
  | WDel k -> Printf.sprintf "D(%s)" (show_key k)
let show_call = function
  | CGet k -> Printf.sprintf "G(%s)" (show_key k)
  | CIter (fk, lk, inc) -> Printf.sprintf "I(%s,%s,%d)" (show_key fk) (show_key lk) (if inc then 1 else 0)
  | CCommit w -> "C{" ^ String.concat "," (List.map show_wop w) ^ "}"
  | CDelRange (fk, lk) -> Printf.sprintf "X(%s,%s)" (show_key fk) (show_key lk)
let show_calls cs = if cs = [] then "-" else String.concat " " (List.map show_call cs)

let show_res = function FOk -> "ok" | FErr -> "err" | FPanic -> "panic" | FCrash -> "crash"

let two62 = n_of_string "4611686018427387904"
let one = n_of_int 1

(* one pass over the operations with the given fault; prints one line per operation
   (with the call trace when [with_calls]) and the readout of the recovered store.
   returns the number of KV calls made *)
let kv_pass (id : string) (tag : string) (batched : bool) (fault : (n * fault) option)
    (with_calls : bool) (ops : string list) : n =
  let s = ref spec_init in
  let d = ref (fdb_init fault) in
  let stopped = ref false in
  let inflight : op option ref = ref None in
  List.iteri (fun k text ->
    if not !stopped then
      match parse_op text with
      | BadOp -> Printf.printf "%s %s%d ? bad\n" id tag k
      | Qry -> ()
      | Mut (name, o, extra) ->
        if extra && spec_wf_op !s o then begin
          let before = !d.d_st in
          let (r, d') = f_step_cur batched !d o in
          d := d';
          if with_calls then
            Printf.printf "%s %s%d %s %s | %s\n" id tag k name (show_res r) (show_calls (new_calls before d'.d_st))
          else Printf.printf "%s %s%d %s %s\n" id tag k name (show_res r);
          if r = FOk then s := spec_step !s o
          else begin stopped := true; inflight := Some o end
        end else Printf.printf "%s %s%d %s nonwf\n" id tag k name)
    ops;
  (* readout of the recovered store: for the markers of the acknowledged state and of
     acknowledged + in flight *)
  let sa = !s in
  let sb = match !inflight with Some o -> spec_step sa o | None -> sa in
  let qry = if batched then batched_query else plain_query in
  let p = ref (recovered !d) in
  let ask q = let (r, p') = qry !p q in p := p'; show_raw r in
  Array.iteri (fun i _ ->
    let nid = nid_of i in
    Printf.printf "%s %sR %d GS %s\n" id tag i (ask (QSnap nid));
    let ma = (sa nid).n_marker and mb = (sb nid).n_marker in
    let ms = if ma = mb then [ma] else [ma; mb] in
    List.iter (fun m ->
      Printf.printf "%s %sR %d RRS %s %s\n" id tag i (string_of_n m) (ask (QState (nid, m)));
      Printf.printf "%s %sR %d Q %s %s\n" id tag i (string_of_n m)
        (ask (QIter (nid, util_add m one, two62, two62)))) ms)
    node_ids;
  !d.d_st.f_calls

let n_lt a b =
  let sa = string_of_n a and sb = string_of_n b in
  compare (String.length sa, sa) (String.length sb, sb) < 0

let run_kv (id : string) (kind : string) (fail_at : string) (mode : string) (body : string) =
  let batched = (kind = "batched") in
  let ops = split_ops body in
  let ft = function "err" -> FtErr | "cb" -> FtCrashBefore | "ca" -> FtCrashAfter | _ -> raise Bad in
  try
    if fail_at = "all" then begin
      let total = kv_pass id "" batched None true ops in
      let i = ref N0 in
      while n_lt !i total do
        List.iter (fun m ->
          ignore (kv_pass id (Printf.sprintf "F%s%s." (string_of_n !i) m) batched (Some (!i, ft m)) false ops))
          ["err"; "cb"; "ca"];
        i := util_add !i one
      done
    end else if mode = "none" then ignore (kv_pass id "" batched None true ops)
    else ignore (kv_pass id "" batched (Some (num fail_at, ft mode)) true ops)
  with Bad -> Printf.printf "%s badcase\n" id

(* ---- tan record layer ---- *)

(* xxhash64 (seed 0) over a byte buffer; tan's checksum is its low 32 bits *)
let p1 = 0x9E3779B185EBCA87L and p2 = 0xC2B2AE3D27D4EB4FL and p3 = 0x165667B19E3779F9L
and p4 = 0x85EBCA77C2B2AE63L and p5 = 0x27D4EB2F165667C5L
let rotl x r = Int64.logor (Int64.shift_left x r) (Int64.shift_right_logical x (64 - r))
let xx_round acc input = Int64.mul (rotl (Int64.add acc (Int64.mul input p2)) 31) p1
let xx_merge acc v = Int64.add (Int64.mul (Int64.logxor acc (xx_round 0L v)) p1) p4
let rd64 (b : Bytes.t) i = Bytes.get_int64_le b i
let rd32 (b : Bytes.t) i = Int64.logand (Int64.of_int32 (Bytes.get_int32_le b i)) 0xFFFFFFFFL
let xxh64 (b : Bytes.t) : int64 =
  let len = Bytes.length b in
  let i = ref 0 in
  let h = ref 0L in
  if len >= 32 then begin
    let v1 = ref (Int64.add p1 p2) and v2 = ref p2 and v3 = ref 0L and v4 = ref (Int64.neg p1) in
    while !i + 32 <= len do
      v1 := xx_round !v1 (rd64 b !i); v2 := xx_round !v2 (rd64 b (!i + 8));
      v3 := xx_round !v3 (rd64 b (!i + 16)); v4 := xx_round !v4 (rd64 b (!i + 24));
      i := !i + 32
    done;
    h := Int64.add (Int64.add (rotl !v1 1) (rotl !v2 7)) (Int64.add (rotl !v3 12) (rotl !v4 18));
    h := xx_merge !h !v1; h := xx_merge !h !v2; h := xx_merge !h !v3; h := xx_merge !h !v4
  end else h := p5;
  h := Int64.add !h (Int64.of_int len);
  while !i + 8 <= len do
    h := Int64.add (Int64.mul (rotl (Int64.logxor !h (xx_round 0L (rd64 b !i))) 27) p1) p4;
    i := !i + 8
  done;
  if !i + 4 <= len then begin
    h := Int64.add (Int64.mul (rotl (Int64.logxor !h (Int64.mul (rd32 b !i) p1)) 23) p2) p3;
    i := !i + 4
  end;
  while !i < len do
    h := Int64.mul (rotl (Int64.logxor !h (Int64.mul (Int64.of_int (Char.code (Bytes.get b !i))) p5)) 11) p1;
    incr i
  done;
  h := Int64.mul (Int64.logxor !h (Int64.shift_right_logical !h 33)) p2;
  h := Int64.mul (Int64.logxor !h (Int64.shift_right_logical !h 29)) p3;
  Int64.logxor !h (Int64.shift_right_logical !h 32)

let buf_of_bytes (l : n list) : Bytes.t =
  let len = List.length l in
  let b = Bytes.create len in
  List.iteri (fun i x -> Bytes.set b i (Char.chr (int_of_n x))) l; b

(* the checksum oracle handed to the model *)
let ck (l : n list) : n =
  let h = xxh64 (buf_of_bytes l) in
  n_of_int (Int64.to_int (Int64.logand h 0xFFFFFFFFL))

let byte_tab = Array.init 256 n_of_int
let fnv (ls : n list list) : string =
  let h = ref 0xcbf29ce484222325L in
  let add b = h := Int64.mul (Int64.logxor !h (Int64.of_int b)) 0x100000001b3L in
  List.iter (fun l ->
    let len = List.length l in
    (* the length first, so that record boundaries matter *)
    for k = 0 to 3 do add ((len lsr (8 * k)) land 255) done;
    List.iter (fun x -> add (int_of_n x)) l) ls;
  Printf.sprintf "%016Lx" !h

(* R<len>:<seed> = generated content; H<hex> = literal *)
let parse_record (tok : string) : n list =
  let tok = String.trim tok in
  if String.length tok < 1 then raise Bad;
  match tok.[0] with
  | 'H' -> (try bytes_of_hex (String.sub tok 1 (String.length tok - 1)) with _ -> raise Bad)
  | 'R' ->
    (match String.split_on_char ':' (String.sub tok 1 (String.length tok - 1)) with
     | [l; s] ->
       let len = (try int_of_string l with _ -> raise Bad) and seed = (try int_of_string s with _ -> raise Bad) in
       if len < 0 || len > 300000 || seed < 0 || seed > 1000000 then raise Bad;
       List.init len (fun j -> byte_tab.((seed * 131 + j * 7 + (j / 251) * 13) land 255))
     | _ -> raise Bad)
  | _ -> raise Bad

let show_verdict = function
  | VEof -> "eof" | VZeroed -> "zeroed" | VInvalid -> "invalid" | VUnexpectedEof -> "ueof" | VCrc -> "crc"

let rec take k l = if k <= 0 then [] else match l with [] -> [] | x :: t -> x :: take (k - 1) t

let show_replay (data : n list) : string =
  let (rs, v) = replay ck N0 data in
  Printf.sprintf "n=%d v=%s h=%s" (List.length rs) (show_verdict v) (fnv rs)

let run_tan (id : string) (kind : string) (args : string list) (body : string) =
  try
    let recs = List.map parse_record (split_ops body) in
    let fr = frame ck recs in
    let len = List.length fr in
    match kind, args with
    | "tanframe", [] ->
      Printf.printf "%s frame len=%d fnv=%s%s\n" id len (fnv [fr])
        (if len <= 512 then " hex=" ^ hex_of_bytes fr else "");
      Printf.printf "%s replay %s\n" id (show_replay fr)
    | "tancut", [cuts] ->
      let cs = if cuts = "all" then List.init (len + 1) (fun i -> i)
        else List.map (fun s -> try int_of_string s with _ -> raise Bad) (String.split_on_char ',' cuts) in
      List.iter (fun c ->
        if c < 0 || c > len then Printf.printf "%s cut=%d skipped\n" id c
        else Printf.printf "%s cut=%d %s\n" id c (show_replay (take c fr))) cs
    | "tangarb", [cut; garbage] ->
      let c = (try int_of_string cut with _ -> raise Bad) in
      let g = (try bytes_of_hex garbage with _ -> raise Bad) in
      if c < 0 || c > len then Printf.printf "%s garb skipped\n" id
      else Printf.printf "%s garb %s\n" id (show_replay (take c fr @ g))
    | _ -> raise Bad
  with Bad -> Printf.printf "%s badcase\n" id

let () =
  iter_lines (fun line ->
    if String.trim line <> "" then begin
      let (head, body) =
        match Str.bounded_split_delim (Str.regexp_string " | ") line 2 with
        | [h; b] -> (h, b)
        | [h] -> (h, "")
        | _ -> (line, "") in
      match split_ws head with
      | [id; "kv"; kind; fail_at; mode] when kind = "plain" || kind = "batched" -> run_kv id kind fail_at mode body
      | id :: "crash" :: _ -> Printf.printf "%s crash ok\n" id
      | [id; "nhfail"; store; mode; _] when (store = "pebble" || store = "tan") && (mode = "srs" || mode = "ss") ->
        Printf.printf "%s nhfail ok\n" id
      | [id; "crashtorn"; kind; mlfs; _] when (kind = "tan" || kind = "tanmux")
          && (try int_of_string mlfs >= 0 with _ -> false) -> Printf.printf "%s crashtorn ok\n" id
      | [id; "crashseq"; kind; mlfs] when (kind = "tan" || kind = "tanmux" || kind = "plain" || kind = "batched")
          && (try int_of_string mlfs >= 0 with _ -> false) -> Printf.printf "%s crashseq ok\n" id
      | [id; "tanio"; kind; mlfs; k] when (kind = "tan" || kind = "tanmux" || kind = "plain" || kind = "batched")
          && (try int_of_string mlfs >= 0 with _ -> false)
          && (k = "all" || k = "none" || k = "fsall" || (try int_of_string k >= 0 with _ -> false)
              || (String.length k > 2 && String.sub k 0 2 = "fs"
                  && (try int_of_string (String.sub k 2 (String.length k - 2)) >= 0 with _ -> false))) ->
        Printf.printf "%s tanio ok\n" id
      | id :: kind :: args when String.length kind >= 3 && String.sub kind 0 3 = "tan" -> run_tan id kind args body
      | id :: _ -> Printf.printf "%s badcase\n" id
      | [] -> ()
    end)
