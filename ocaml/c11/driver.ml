(* C11 model driver.
   live cases : "<id> live kind=K seed=S log=PATH | ops" -> the recorded call log at PATH is
                run through the extracted calls_ok
   apply cases: "<id> apply disk=D init=I applied=A | T i:k:p,... ; SYNC ; SAVE ; REC i"
                -> the extracted handle_tasks *)
open Model
open Util

let split_ops (s : string) : string list =
  List.filter (fun x -> String.trim x <> "")
    (List.map String.trim (Str.split (Str.regexp_string " ; ") s))

let meth_of_string = function
  | "Update" -> MUpdate | "Lookup" -> MLookup | "NALookup" -> MNALookup | "Sync" -> MSync
  | "PrepareSnapshot" -> MPrepare | "SaveSnapshot" -> MSave | "RecoverFromSnapshot" -> MRecover
  | "Close" -> MClose | "Open" -> MOpen | _ -> MOther

let kind_of_string = function "plain" -> Plain | "conc" -> Conc | _ -> Disk

let field hdr name dflt =
  let p = name ^ "=" in
  let n = String.length p in
  List.fold_left (fun acc h ->
    if String.length h >= n && String.sub h 0 n = p then String.sub h n (String.length h - n) else acc) dflt hdr

let parse_pairs (s : string) : (n * n) list =
  if s = "-" then [] else
  List.map (fun x -> match String.split_on_char ':' x with
    | [a; b] -> (n_of_string a, n_of_string b)
    | _ -> failwith ("bad pair " ^ x)) (String.split_on_char ',' s)

let read_log path : cev list =
  let ic = open_in path in
  let acc = ref [] in
  (try while true do
     let line = String.trim (input_line ic) in
     if line <> "" then
       match split_ws line with
       | ["E"; inc; m; ents] -> acc := CEnter (n_of_string inc, meth_of_string m, parse_pairs ents) :: !acc
       | ["X"; inc; m; v] -> acc := CExit (n_of_string inc, meth_of_string m, n_of_string v) :: !acc
       | ["A"; inc; p] -> acc := CAck (n_of_string inc, n_of_string p) :: !acc
       | _ -> failwith ("bad log line: " ^ line)
   done with End_of_file -> ());
  close_in ic; List.rev !acc

let () =
  iter_lines (fun line ->
    if String.trim line <> "" then begin
      let head, body =
        match Str.bounded_split (Str.regexp_string " | ") line 2 with
        | [h; b] -> h, b
        | [h] -> (if Filename.check_suffix h " |" then String.sub h 0 (String.length h - 2) else h), ""
        | _ -> line, "" in
      match split_ws head with
      | id :: "live" :: hdr ->
        let k = kind_of_string (field hdr "kind" "plain") in
        let path = field hdr "log" "" in
        if not (Sys.file_exists path) then Printf.printf "%s live nolog\n" id
        else begin
          let ((err, nupd), incs) = calls_ok k (read_log path) in
          Printf.printf "%s live err=%s nupd=%s incs=%s\n" id (string_of_n err) (string_of_n nupd) (string_of_n incs)
        end
      | id :: "apply" :: hdr ->
        let disk = field hdr "disk" "0" = "1" in
        let init = n_of_string (field hdr "init" "0") in
        let applied = n_of_string (field hdr "applied" "0") in
        let tasks = List.map (fun o ->
          match split_ws o with
          | ["RACE"; ents] | ["T"; ents] ->
            TEntries (List.map (fun x -> match String.split_on_char ':' x with
              | [i; k; p] -> { e_index = n_of_string i; e_kind = (if k = "u" then KUpdate else KSkip); e_payload = n_of_string p }
              | _ -> failwith "bad entry") (String.split_on_char ',' ents))
          | ["T"] -> TEntries []
          | ["SYNC"] -> TSync
          | ["SAVE"] -> TSave
          | ["REC"; i] -> TRecover (n_of_string i)
          | ["STREAM"] -> TStream
          | _ -> failwith ("bad task " ^ o)) (split_ops body) in
        let st = handle_tasks (a_start applied init disk) tasks in
        Printf.printf "%s apply err=%s index=%s calls=%s streams=%s\n" id (string_of_n st.a_err) (string_of_n st.a_index)
          (match calls_of st with [] -> "-" | l ->
             String.concat "," (List.map (fun (i, p) -> string_of_n i ^ ":" ^ string_of_n p) l))
          (match streams_of st with [] -> "-" | l ->
             String.concat "," (List.map (function None -> "refused" | Some (i, od) -> string_of_n i ^ ":" ^ string_of_n od) l))
      | id :: _ -> Printf.printf "%s ?\n" id
      | [] -> ()
    end)
