(* Model driver for C15. Reads the cases of harness/cmd/c15 and prints what the
   real sender / receiver print when they agree with the extracted model.

   The model (Model/Chunks.v) is parametric in the data type and in the
   snapshot validator; here
     D     := OCaml string   (dapp = ^, dlen = String.length, dsub = String.sub)
     V     := the record [v] below, a transcription of rsm.SnapshotValidator +
              v2validator (CRC-32 IEEE, 2 MB blocks, 16 byte tail)
   Everything else (splitting, the receiver state machine, path.Base) is the
   extracted Coq code. *)
open Model
open Util

(* ---------- bytes ---------- *)
let crc_table =
  Array.init 256 (fun n ->
    let c = ref n in
    for _ = 0 to 7 do
      if !c land 1 = 1 then c := 0xEDB88320 lxor (!c lsr 1) else c := !c lsr 1
    done; !c)
let crc32_sub (s : string) (off : int) (len : int) : int =
  let c = ref 0xFFFFFFFF in
  for i = off to off + len - 1 do
    c := crc_table.((!c lxor Char.code (String.unsafe_get s i)) land 0xff) lxor (!c lsr 8)
  done; !c lxor 0xFFFFFFFF
let crc32 s = crc32_sub s 0 (String.length s)
let digest_skip = ref 0   (* stream cases: the header carries a time stamp *)
let digest s =
  let l = String.length s in
  let k = if !digest_skip > 0 && l >= !digest_skip then !digest_skip else 0 in
  Printf.sprintf "%d:%08x" l (crc32_sub s k (l - k))

let lcg_bytes (seed : int) (n : int) : string =
  let x = ref (seed land 0x7fffffff) in
  String.init n (fun _ ->
    x := (!x * 1103515245 + 12345) land 0x7fffffff;
    Char.chr ((!x lsr 16) land 0xff))

let string_of_hex h =
  if h = "-" then "" else
  String.init (String.length h / 2) (fun i -> Char.chr (hexval h.[2*i] * 16 + hexval h.[2*i+1]))
let hex_of_string s =
  if s = "" then "-" else begin
    let b = Buffer.create (2 * String.length s) in
    String.iter (fun c -> Buffer.add_string b (Printf.sprintf "%02x" (Char.code c))) s;
    Buffer.contents b end
let string_of_nlist (l : n list) = String.concat "" (List.map (fun x -> String.make 1 (Char.chr (int_of_n x))) l)

let expand_pieces (s : string) : string =
  if s = "-" || s = "" then "" else
  String.concat "" (List.map (fun p ->
    let rest = String.sub p 1 (String.length p - 1) in
    match p.[0] with
    | 'h' -> string_of_hex rest
    | 'r' -> (match String.split_on_char '.' rest with
              | [sd; ln] -> lcg_bytes (int_of_string sd) (int_of_string ln)
              | _ -> failwith "bad r piece")
    | _ -> failwith ("bad piece " ^ p)) (String.split_on_char '+' s))

(* ---------- D ---------- *)
let dapp (a : string) (b : string) = a ^ b
let dlen (a : string) : n = n_of_int (String.length a)
let dsub (a : string) (off : n) (len : n) = String.sub a (int_of_n off) (int_of_n len)

(* ---------- the validator (rsm.SnapshotValidator, v2validator) ---------- *)
type v = { started : bool; block : string; total : int }
let vinit = { started = false; block = ""; total = 0 }
let header_size = int_of_n snapshot_header_size
let block_size = int_of_n snapshot_chunk_size   (* rsm: blockSize = settings.SnapshotChunkSize *)
let cks = 4
let tail_size = 16
let magic = string_of_nlist block_file_magic

let be32 s off =
  (Char.code s.[off] lsl 24) lor (Char.code s.[off+1] lsl 16) lor (Char.code s.[off+2] lsl 8) lor Char.code s.[off+3]
let le64 s off =
  let r = ref 0 in
  for i = 7 downto 0 do r := (!r lsl 8) lor Char.code s.[off + i] done; !r  (* values above 2^62 only matter as "too large" *)

let validate_block (b : string) : bool =
  let l = String.length b in
  l > cks && crc32_sub b 0 (l - cks) = be32 b (l - cks)

exception Malformed
(* pb.SnapshotHeader: ChecksumType is field 7, Version field 8 (varints) *)
let parse_header (h : string) : int * int =
  let pos = ref 0 and ct = ref 0 and ver = ref 0 in
  let varint () =
    let r = ref 0 and shift = ref 0 and continue = ref true in
    while !continue do
      if !pos >= String.length h || !shift > 63 then raise Malformed;
      let b = Char.code h.[!pos] in
      incr pos;
      r := !r lor ((b land 0x7f) lsl !shift);
      shift := !shift + 7;
      if b < 0x80 then continue := false
    done; !r in
  while !pos < String.length h do
    let tag = varint () in
    let field = tag lsr 3 and wt = tag land 7 in
    (match wt with
     | 0 -> let x = varint () in
            if field = 7 then ct := x else if field = 8 then ver := x
     | 2 -> let l = varint () in
            if l < 0 || !pos + l > String.length h then raise Malformed;
            pos := !pos + l
     | 1 -> if !pos + 8 > String.length h then raise Malformed; pos := !pos + 8
     | 5 -> if !pos + 4 > String.length h then raise Malformed; pos := !pos + 4
     | _ -> raise Malformed)
  done;
  (!ct, !ver)

let v2_add (v : v) (p : string) : v vres =
  let total = v.total + String.length p in
  let block = ref (v.block ^ p) in
  let unit = block_size + cks in
  let ok = ref true in
  while !ok && String.length !block >= 2 * unit do
    let b = String.sub !block 0 unit in
    block := String.sub !block unit (String.length !block - unit);
    if not (validate_block b) then ok := false
  done;
  let v' = { started = true; block = !block; total } in
  if !ok then VOk v' else VBad v'

let vadd (v : v) (data : string) (id : n) : v vres =
  if id = N0 then begin
    if String.length data < header_size then VPanic
    else
      let sz = le64 data 0 in
      if sz < 0 || sz > header_size - 8 then VBad v
      else if v.started then VBad v
      else
        let header = String.sub data 8 sz and crc = String.sub data (8 + sz) 4 in
        if crc <> "\000\000\000\000" && crc32 header <> be32 crc 0 then VBad v
        else match (try Some (parse_header header) with Malformed -> None) with
          | None -> VPanic
          | Some (ct, ver) ->
            if ver <> 2 then (if ver = 1 then failwith "v1 snapshot files are not supported by the driver" else VBad v)
            else if ct <> 0 then VBad v
            else v2_add v (String.sub data header_size (String.length data - header_size))
  end else if not v.started then VBad v
  else v2_add v data

let vfinal (v : v) : bool =
  if not v.started then false
  else
    let l = String.length v.block in
    if l < tail_size then false
    else
      let tail = String.sub v.block (l - tail_size) tail_size in
      let block = ref (String.sub v.block 0 (l - tail_size)) in
      if String.sub tail 8 8 <> magic || le64 tail 0 <> v.total - tail_size then false
      else begin
        let unit = block_size + cks in
        let ok = ref true in
        while !ok && String.length !block > unit do
          let c = String.sub !block 0 unit in
          block := String.sub !block unit (String.length !block - unit);
          if not (validate_block c) then ok := false
        done;
        !ok && (String.length !block = 0 || validate_block !block)
      end

(* ---------- parsing ---------- *)
let ns = n_of_string
let sn = string_of_n
let b2s b = if b then "1" else "0"

let parse_data (files : string array) (s : string) : string =
  if s = "-" then ""
  else if s.[0] = 'h' then string_of_hex (String.sub s 1 (String.length s - 1))
  else begin
    let base, cor = match String.index_opt s '^' with
      | Some i -> String.sub s 0 i, Some (String.sub s (i + 1) (String.length s - i - 1))
      | None -> s, None in
    match String.split_on_char '.' base with
    | [k; off; len] ->
      let b = Bytes.of_string (String.sub files.(int_of_string k) (int_of_string off) (int_of_string len)) in
      (match cor with
       | Some c -> (match String.split_on_char '.' c with
           | [p; x] -> let p = int_of_string p in
             Bytes.set b p (Char.chr (Char.code (Bytes.get b p) lxor int_of_string x))
           | _ -> failwith "bad corruption")
       | None -> ());
      Bytes.to_string b
    | _ -> failwith ("bad data ref " ^ s)
  end

let parse_meta (f : string array) (o : int) : cmeta =
  (* f.(o) = shard ... 21 fields *)
  let g i = f.(o + i) in
  { c_shard = ns (g 0); c_replica = ns (g 1); c_from = ns (g 2); c_id = ns (g 3); c_size = ns (g 4);
    c_count = ns (g 5); c_index = ns (g 6); c_term = ns (g 7); c_path = bytes_of_hex (g 8);
    c_fsize = ns (g 9); c_did = ns (g 10); c_fcid = ns (g 11); c_fccount = ns (g 12);
    c_hasfi = (g 13 = "1");
    c_fi = { sf_id = ns (g 14); sf_size = ns (g 15); sf_path = bytes_of_hex (g 16); sf_meta = bytes_of_hex (g 17) };
    c_binver = ns (g 18); c_odi = ns (g 19); c_witness = (g 20 = "1") }

let meta_string (m : cmeta) : string =
  String.concat " " [ sn m.c_shard; sn m.c_replica; sn m.c_from; sn m.c_id; sn m.c_size; sn m.c_count;
    sn m.c_index; sn m.c_term; hex_of_bytes m.c_path; sn m.c_fsize; sn m.c_did; sn m.c_fcid; sn m.c_fccount;
    b2s m.c_hasfi; sn m.c_fi.sf_id; sn m.c_fi.sf_size; hex_of_bytes m.c_fi.sf_path; hex_of_bytes m.c_fi.sf_meta;
    sn m.c_binver; sn m.c_odi; b2s m.c_witness ]

type header = { mutable cs : n; mutable gc : n; mutable to_ : n; mutable slots : n; mutable did : n;
                mutable par : bool; mutable cgc : bool; mutable fail : string; mutable wb : string;
                mutable files : (string * string) list (* path, data; reversed *) }

let parse_header_fields (fields : string list) : header =
  let h = { cs = snapshot_chunk_size; gc = N0; to_ = N0; slots = N0; did = N0; par = false; cgc = false; fail = "none"; wb = ""; files = [] } in
  List.iter (fun kv ->
    match String.index_opt kv '=' with
    | None -> failwith ("bad header field " ^ kv)
    | Some i ->
      let k = String.sub kv 0 i and v = String.sub kv (i + 1) (String.length kv - i - 1) in
      if k = "cs" then h.cs <- ns v
      else if k = "gc" then h.gc <- ns v
      else if k = "to" then h.to_ <- ns v
      else if k = "slots" then h.slots <- ns v
      else if k = "did" then h.did <- ns v
      else if k = "steady" then ()
      else if k = "par" then h.par <- (v = "1")
      else if k = "cgc" then h.cgc <- true
      else if k = "fail" then h.fail <- v
      else if k = "wb" then h.wb <- expand_pieces v
      else if k.[0] = 'F' then begin
        let path, desc = match String.index_opt v '@' with
          | Some j -> string_of_hex (String.sub v 0 j), String.sub v (j + 1) (String.length v - j - 1)
          | None -> "", v in
        h.files <- (path, expand_pieces desc) :: h.files
      end
      else if k.[0] = 'S' then ()
      else failwith ("bad header field " ^ kv)) fields;
  if h.gc = N0 then h.gc <- snapshot_gc_tick;
  if h.to_ = N0 then h.to_ <- snapshot_chunk_timeout_tick;
  if h.slots = N0 then h.slots <- max_concurrent_slot;
  h

(* ---------- printing the receiver state ---------- *)
let sorted l = List.sort compare l
let key_s ((a, b), c) = Printf.sprintf "%s.%s.%s" (sn a) (sn b) (sn c)
let tkey_s (((a, b), c), d) = Printf.sprintf "%s.%s.%s.%s" (sn a) (sn b) (sn c) (sn d)

let dir_s (files : (bytes * string) list) : string =
  String.concat "," (List.map (fun (h, d) -> h ^ "=" ^ d)
    (List.sort (fun (a, _) (b, _) -> compare a b) (List.map (fun (nm, d) -> (hex_of_bytes nm, digest d)) files)))

let files_s (l : sfile list) : string =
  String.concat "," (List.map (fun f ->
    Printf.sprintf "%s:%s:%s:p" (sn f.sf_id) (sn f.sf_size) (hex_of_bytes f.sf_meta)) l)

let snapshot_s (n : notif) : string =
  Printf.sprintf "idx=%s term=%s odi=%s name=%s fsize=%s wit=%s files=[%s]"
    (sn n.n_index) (sn n.n_term) (sn n.n_odi) (hex_of_bytes n.n_name) (sn n.n_fsize) (b2s n.n_witness)
    (files_s n.n_files)

let notif_s (n : notif) : string =
  Printf.sprintf "type=IS sh=%s to=%s from=%s did=%s binver=%s %s"
    (sn n.n_shard) (sn n.n_to) (sn n.n_from) (sn n.n_did) (sn n.n_binver) (snapshot_s n)

let state_parts (st : (string, v) state) =
  let tr = sorted (List.map (fun (k, td) ->
    Printf.sprintf "%s:%s:%s:%s:%d" (key_s k) (sn td.t_next) (sn td.t_first.c_from) (sn td.t_tick)
      (List.length td.t_files)) st.s_tracked) in
  let tmp = sorted (List.map (fun (tk, files) -> tkey_s tk ^ "{" ^ dir_s files ^ "}") st.s_temps) in
  let fin = sorted (List.map (fun (k, fd) ->
    key_s k ^ "{" ^ dir_s fd.fd_files ^ "}flag{" ^ snapshot_s fd.fd_flag ^ "}") st.s_finals) in
  let rm = sorted (List.map (fun ((a, b), ()) -> sn a ^ "." ^ sn b) st.s_removed) in
  (tr, tmp, fin, rm)

let state_s (st : (string, v) state) : string =
  let (tr, tmp, fin, rm) = state_parts st in
  let nn = List.length st.s_out in
  Printf.sprintf "tick=%s T[%s] D[%s] F[%s] X[%s] N=%d C=%d stray=0" (sn st.s_tick)
    (String.concat " " tr) (String.concat " " tmp) (String.concat " " fin) (String.concat " " rm) nn nn

(* ---------- cases ---------- *)
let fix_mid = drop_stream_on_invalid_chunk
let fix_first = first_chunk_validated_before_discard

(* ---------- stream mode ---------- *)
let be32_s (x : int) = String.init 4 (fun i -> Char.chr ((x lsr (8 * (3 - i))) land 0xff))
let le64_s (x : int) = String.init 8 (fun i -> Char.chr ((x lsr (8 * i)) land 0xff))

(* a header the validator transcription accepts: ChecksumType 0, Version 2 *)
let synthetic_header () =
  let body = "\x38\x00\x40\x02" in
  let h = le64_s (String.length body) ^ body ^ be32_s (crc32 body) in
  h ^ String.make (header_size - String.length h) '\000'

let parse_msg (f : string array) : ssmsg =
  if f.(0) <> "M" then failwith "bad message";
  let nf = int_of_string f.(10) in
  let sfiles = List.init nf (fun i ->
    let o = 11 + 4 * i in
    { sf_path = bytes_of_hex f.(o); sf_size = ns f.(o + 1); sf_id = ns f.(o + 2); sf_meta = bytes_of_hex f.(o + 3) }) in
  { m_shard = ns f.(1); m_to = ns f.(2); m_from = ns f.(3); m_index = ns f.(4); m_term = ns f.(5);
    m_odi = ns f.(6); m_path = bytes_of_hex f.(7); m_fsize = ns f.(8); m_files = sfiles;
    m_witness = (f.(9) = "1") }

let src_of (h : header) =
  (* h.files is latest first: like the file system, a later file under the same path wins *)
  List.map (fun (p, d) -> ((if p = "" then [] else bytes_of_hex (hex_of_string p)), d)) h.files

(* par=1: the streams are fed concurrently to the implementation; distinct snapshots do not
   interfere (streams_independent), so the final state is that of any sequential order *)
let run_parallel (id : string) (h : header) (body : string) =
  let files = Array.of_list (List.rev_map snd h.files) in
  let ops = List.filter (fun s -> s <> "") (List.map String.trim (Str.split (Str.regexp_string " ; ") body)) in
  let st = ref (init : (string, v) state) in
  let panics = ref 0 in
  List.iter (fun o ->
    let f = Array.of_list (split_ws o) in
    if f.(0) = "A" then begin
      let m = parse_meta f 1 in
      let d = parse_data files f.(22) in
      match step dapp vinit vadd vfinal fix_mid fix_first h.did h.gc h.to_ h.slots !st (OAdd (m, d)) with
      | Done (st', _) -> st := st'
      | Panic -> incr panics
    end) ops;
  let (tr, tmp, fin, _) = state_parts !st in
  Printf.printf "%s end panics=%d T[%s] D[%s] F[%s] N=%d\n" id !panics (String.concat " " tr) (String.concat " " tmp)
    (String.concat " " fin) (List.length !st.s_out);
  List.iter (fun s -> Printf.printf "%s notif %s\n" id s) (sorted (List.map notif_s !st.s_out))

(* cgc: the gc tick "K" runs concurrently with the Add that follows it; the two sequential
   orders are the allowed outcomes: their final states are printed, the implementation's
   concurrent run must end in one of them *)
let run_cgc (id : string) (h : header) (body : string) =
  let files = Array.of_list (List.rev_map snd h.files) in
  let ops = Array.of_list (List.filter (fun s -> s <> "")
      (List.map String.trim (Str.split (Str.regexp_string " ; ") body))) in
  let ki = ref (-1) in
  Array.iteri (fun i o -> if o = "K" then ki := i) ops;
  let run_order (swap : bool) : string =
    let l = Array.copy ops in
    if swap then begin let t = l.(!ki) in l.(!ki) <- l.(!ki + 1); l.(!ki + 1) <- t end;
    let do_step st o = step dapp vinit vadd vfinal fix_mid fix_first h.did h.gc h.to_ h.slots st o in
    let rec ticks st k = if k <= 0 then st else
        (match do_step st OTick with Done (st', _) -> ticks st' (k - 1) | Panic -> st) in
    let st = ref (init : (string, v) state) in
    let panicked = ref false in
    let verdicts = Buffer.create 16 in
    Array.iteri (fun i o ->
      if not !panicked then begin
        let f = Array.of_list (split_ws o) in
        match f.(0) with
        | "A" -> (match do_step !st (OAdd (parse_meta f 1, parse_data files f.(22))) with
            | Done (st', ok) -> st := st'; if i >= !ki then Buffer.add_char verdicts (if ok then 'a' else 'r')
            | Panic -> panicked := true)
        | "T" -> st := ticks !st (int_of_string f.(1))
        | "K" -> st := ticks !st 1
        | "Z" -> st := ticks !st (int_of_n h.to_ + int_of_n h.gc + 1)
        | "C" -> (match do_step !st OClose with Done (st', _) -> st := st' | Panic -> panicked := true)
        | _ -> failwith ("bad op in cgc case " ^ o)
      end) l;
    if !panicked then "panic" else "v=" ^ Buffer.contents verdicts ^ " " ^ state_s !st in
  Printf.printf "%s seq1 %s\n" id (run_order false);
  Printf.printf "%s seq2 %s\n" id (run_order true);
  Printf.printf "%s cgc allowed\n" id

(* G: Transport.SendSnapshot end to end. The sender is the model's send_message, the chunks
   delivered before the injected failure go to the model receiver; one status report
   (rejected iff a failure was injected) and one release of the snapshot are expected. *)
let run_glue (id : string) (h : header) (body : string) =
  let msg = parse_msg (Array.of_list (split_ws body)) in
  if msg.m_witness then digest_skip := header_size;
  let wdata = synthetic_header () ^ h.wb in
  let chunks = match send_message dlen dsub h.cs h.did (src_of h) wdata msg with
    | Some l -> l | None -> failwith "glue case: the model sender panics" in
  let immediate = (h.fail = "resolve" || h.fail = "breaker" || h.fail = "jobs") in
  let keep = if h.fail = "conn" || immediate then 0
    else if String.length h.fail > 5 && String.sub h.fail 0 5 = "chunk"
    then int_of_string (String.sub h.fail 5 (String.length h.fail - 5))
    else List.length chunks in
  let delivered = List.filteri (fun i _ -> i < keep) chunks in
  let st = ref (init : (string, v) state) in
  List.iter (fun c ->
    match step dapp vinit vadd vfinal fix_mid fix_first h.did snapshot_gc_tick snapshot_chunk_timeout_tick
            max_concurrent_slot !st (OAdd c) with
    | Done (st', _) -> st := st'
    | Panic -> failwith "glue case: the model receiver panics") delivered;
  let (tr, tmp, fin, _) = state_parts !st in
  let nn = List.length !st.s_out in
  Printf.printf "%s g sent=%s status=[%s.%s.%s] compact=1 delivered=%d msgs=%d hs=%d T[%s] D[%s] F[%s]\n" id
    (if immediate then "0" else "1") (sn msg.m_shard) (sn msg.m_to) (if h.fail = "none" then "0" else "1") (List.length delivered) nn nn
    (String.concat " " tr) (String.concat " " tmp) (String.concat " " fin);
  digest_skip := 0

let run_receiver (id : string) (h : header) (body : string) =
  let files = Array.of_list (List.rev_map snd h.files) in
  let ops = List.filter (fun s -> s <> "")
      (List.map String.trim (Str.split (Str.regexp_string " ; ") body)) in
  let do_step st o = step dapp vinit vadd vfinal fix_mid fix_first h.did h.gc h.to_ h.slots st o in
  let rec ticks st k = if k <= 0 then st else
      (match do_step st OTick with Done (st', _) -> ticks st' (k - 1) | Panic -> st) in
  let st = ref (init : (string, v) state) in
  (try
    List.iteri (fun i o ->
      let f = Array.of_list (split_ws o) in
      let before = List.length !st.s_out in
      let res =
        match f.(0) with
        | "A" ->
          if Array.length f <> 23 then failwith ("bad add op: " ^ o);
          let m = parse_meta f 1 in
          let d = parse_data files f.(22) in
          (match do_step !st (OAdd (m, d)) with
           | Done (st', ok) -> st := st'; if ok then "ok" else "rej"
           | Panic -> "panic")
        | "T" -> st := ticks !st (int_of_string f.(1)); "-"
        | "K" -> st := ticks !st 1; "-"
        | "Z" -> st := ticks !st (int_of_n h.to_ + int_of_n h.gc + 1); "-"
        | "X" -> (match do_step !st (ORemoved (ns f.(1), ns f.(2))) with
            | Done (st', _) -> st := st'; "-" | Panic -> "panic")
        | "C" -> (match do_step !st OClose with Done (st', _) -> st := st'; "-" | Panic -> "panic")
        | _ -> failwith ("bad op " ^ o) in
      if res = "panic" then begin
        Printf.printf "%s %d panic\n" id i; raise Exit
      end;
      Printf.printf "%s %d %s %s\n" id i res (state_s !st);
      let now = List.length !st.s_out in
      (* s_out is newest first *)
      let fresh = List.rev (List.filteri (fun j _ -> j < now - before) !st.s_out) in
      List.iter (fun n -> Printf.printf "%s %d notif %s\n" id i (notif_s n)) fresh) ops
  with Exit -> ())

let run_sender (id : string) (h : header) (body : string) =
  let f = Array.of_list (split_ws body) in
  if f.(0) <> "M" then failwith "bad sender case";
  let nf = int_of_string f.(10) in
  let sfiles = List.init nf (fun i ->
    let o = 11 + 4 * i in
    { sf_path = bytes_of_hex f.(o); sf_size = ns f.(o + 1); sf_id = ns f.(o + 2); sf_meta = bytes_of_hex f.(o + 3) }) in
  let msg = { m_shard = ns f.(1); m_to = ns f.(2); m_from = ns f.(3); m_index = ns f.(4); m_term = ns f.(5);
              m_odi = ns f.(6); m_path = bytes_of_hex f.(7); m_fsize = ns f.(8); m_files = sfiles;
              m_witness = (f.(9) = "1") } in
  (* h.files is latest first: like the file system, a later file under the same path wins *)
  let src = List.map (fun (p, d) ->
    ((if p = "" then [] else bytes_of_hex (hex_of_string p)), d)) h.files in
  match send_snapshot dlen dsub h.cs h.did src msg with
  | None -> Printf.printf "%s panic\n" id
  | Some chunks ->
    List.iteri (fun i (m, d) -> Printf.printf "%s %d c %s %s\n" id i (meta_string m) (digest d)) chunks

let run_stream (id : string) (fields : string list) (body : string) =
  let get k = let p = k ^ "=" in
    let f = List.find (fun s -> String.length s > String.length p && String.sub s 0 (String.length p) = p) fields in
    String.sub f (String.length p) (String.length f - String.length p) in
  let bs = int_of_string (get "bs") in
  let did = ns (get "did") and idx = int_of_string (get "idx") in
  let payload = match split_ws body with ["P"; d] -> expand_pieces d | _ -> failwith "bad stream body" in
  digest_skip := header_size;
  let name = Printf.sprintf "snapshot-%016X.gbsnap" idx in
  let msg = { m_shard = ns (get "sh"); m_to = ns (get "rp"); m_from = ns (get "from"); m_index = ns (get "idx");
              m_term = ns (get "term"); m_odi = ns (get "odi"); m_path = bytes_of_hex (hex_of_string name);
              m_fsize = N0; m_files = []; m_witness = false } in
  (* the model cuts the payload into blocks; the checksum bytes, the header and the tail are
     supplied here (CRC-32 big endian; a header the validator accepts; total | magic) *)
  let chunks = stream_snapshot "" dapp dlen dsub (fun b -> be32_s (crc32 b)) (synthetic_header ())
                 (fun total -> le64_s (int_of_n total) ^ magic) (n_of_int bs) msg did payload in
  let real = (bs = block_size) in
  let va = if real then vadd else (fun v _ _ -> VOk v) in
  let vf = if real then vfinal else (fun _ -> true) in
  let st = ref (init : (string, v) state) in
  (try
    List.iteri (fun i (m, d) ->
      let l = String.length d in
      let k = if i = 0 && l >= header_size then header_size else 0 in
      Printf.printf "%s %d c %s %d:%08x\n" id i (meta_string m) l (crc32_sub d k (l - k));
      let res = match step dapp vinit va vf fix_mid fix_first did snapshot_gc_tick snapshot_chunk_timeout_tick
                        max_concurrent_slot !st (OAdd (m, d)) with
        | Done (st', ok) -> st := st'; if ok then "ok" else "rej"
        | Panic -> "panic" in
      let (tr, tmp, fin, _) = state_parts !st in
      Printf.printf "%s r%d %s T[%s] D[%s] F[%s] N=%d\n" id i res (String.concat " " tr) (String.concat " " tmp)
        (String.concat " " fin) (List.length !st.s_out);
      if res = "panic" then raise Exit) chunks
  with Exit -> ());
  List.iter (fun nf -> Printf.printf "%s notif %s\n" id (notif_s nf)) (List.rev !st.s_out);
  digest_skip := 0

let () =
  iter_lines (fun line ->
    if line = "" || line.[0] = '#' then () else
    let head, body =
      match Str.bounded_split_delim (Str.regexp_string " | ") line 2 with
      | [a; b] -> a, b
      | [a] -> a, ""
      | _ -> line, "" in
    match split_ws head with
    | id :: "CONST" :: _ ->
      Printf.printf "%s CONST cs=%s gc=%s to=%s slots=%s binver=%s last=%s flag=%s hdr=%s\n" id
        (sn snapshot_chunk_size) (sn snapshot_gc_tick) (sn snapshot_chunk_timeout_tick) (sn max_concurrent_slot)
        (sn transport_bin_version) (sn last_chunk_count) (hex_of_bytes snapshot_flag_filename) (sn snapshot_header_size)
    | id :: "T" :: fields -> run_stream id fields body
    | id :: "G" :: fields -> run_glue id (parse_header_fields fields) body
    | id :: "R" :: fields ->
      let h = parse_header_fields fields in
      let has_pair = (try ignore (Str.search_forward (Str.regexp_string "K ; A ") body 0); true with Not_found -> false) in
      if h.cgc && has_pair then run_cgc id h body
      else if h.par then run_parallel id h body else run_receiver id h body
    | id :: "S" :: fields -> run_sender id (parse_header_fields fields) body
    | [] -> ()
    | id :: _ -> Printf.printf "%s ? unparsed\n" id)
