(* R17 model driver: runs the extracted Model/MsgQueue.v on the cases of harness/cmd/r17 and
   prints what the harness prints for the real server.MessageQueue.
   case:  <id> size=<n> lazy=<k> | op ; op ...   op = T | A <id> | M <id> | D <id> <delay> | G | C
   obs:   <id> <i>:<op letter>=<result>                                                        *)
open Model
open Util

let ns = n_of_string
let si = string_of_n

let parse_op (f : string list) : mqop =
  match f with
  | ["T"] -> MTick
  | ["A"; i] | ["A"; i; _] -> MAdd (ns i)
  | ["M"; i] | ["M"; i; _] -> MMustAdd (ns i)
  | ["D"; i; d] -> MAddDelayed (ns i, ns d)
  | ["G"] -> MGet
  | ["C"] -> MClose
  | _ -> failwith ("bad op: " ^ String.concat " " f)

let show (o : mqop) (out : mqout) : string =
  let b x = if x then "1" else "0" in
  match o, out with
  | MTick, _ -> "T"
  | MClose, _ -> "C"
  | MAdd _, OAdd (a, s) -> "A=" ^ b a ^ "," ^ b s
  | (MMustAdd _), OBool x -> "M=" ^ b x
  | (MAddDelayed _), OBool x -> "D=" ^ b x
  | MGet, OGet ids -> "G=" ^ (if ids = [] then "-" else String.concat "," (List.map si ids))
  | _ -> "?"

let () =
  iter_lines (fun line ->
    match Str.bounded_split (Str.regexp_string " | ") line 2 with
    | [head; body] ->
      let hf = split_ws head in
      let id = List.hd hf in
      let size = ref (n_of_int 4) in
      List.iter (fun f ->
        match String.index_opt f '=' with
        | Some i when String.sub f 0 i = "size" -> size := ns (String.sub f (i + 1) (String.length f - i - 1))
        | _ -> ()) hf;
      let ops = List.map (fun s -> parse_op (split_ws s)) (Str.split (Str.regexp_string " ; ") body) in
      let q = ref (mq_init !size) in
      List.iteri (fun i o ->
        let (q1, out) = mq_step !q o in
        q := q1;
        Printf.printf "%s %d:%s\n" id i (show o out)) ops
    | _ -> ())
