(* C04 model driver: reads the harness' cases from stdin and prints, for each case, the
   lines harness/cmd/c04 prints into impl.obs when model and code agree.
   S: validate_update / set_fast_apply;  E: step_skeleton of one batch;
   L/T: trace_run per replica + the expected Send/Persist skeleton per step worker
   (concatenation of step_skeleton over the batches of that worker). *)
open Model
open Util

let n = n_of_string
let s_of = string_of_n

let split_on (sep : string) (s : string) : string list =
  Str.split_delim (Str.regexp_string sep) s

let kv_of (toks : string list) : (string * string) list =
  List.filter_map (fun t ->
    match String.index_opt t '=' with
    | Some i -> Some (String.sub t 0 i, String.sub t (i + 1) (String.length t - i - 1))
    | None -> None) toks
let get kv k = try List.assoc k kv with Not_found -> failwith ("missing " ^ k)

let parse_ents (s : string) : ent list =
  if s = "-" || s = "" then []
  else if s.[0] = '!' then
    List.map (fun p ->
      match String.split_on_char '/' p with
      | [i; t] -> { e_index = n i; e_term = n t }
      | _ -> failwith "bad ent")
      (String.split_on_char '.' (String.sub s 1 (String.length s - 1)))
  else begin
    let c = String.index s ':' in
    let first = n (String.sub s 0 c) in
    let terms = String.split_on_char '.' (String.sub s (c + 1) (String.length s - c - 1)) in
    let rec go i = function
      | [] -> []
      | t :: r -> { e_index = i; e_term = n t } :: go (util_add i (n_of_int 1)) r in
    go first terms
  end

let parse_msg (s : string) : msg =
  match String.split_on_char ',' s with
  | [t; to_; from; term; lt; li; c; rj; es] ->
    { m_type = n t; m_to = n to_; m_from = n from; m_term = n term; m_logterm = n lt; m_logindex = n li;
      m_commit = n c; m_reject = (rj = "1"); m_ents = parse_ents es }
  | _ -> failwith ("bad message " ^ s)

let parse_msgs (s : string) : msg list =
  if s = "-" then [] else List.map parse_msg (String.split_on_char '+' s)

let parse_key (s : string) : n * n =
  match String.split_on_char '.' s with
  | [a; b] -> (n a, n b)
  | _ -> failwith "bad key"

let dot3 s = match String.split_on_char '.' s with [a; b; c] -> (n a, n b, n c) | _ -> failwith "bad triple"
let dot2 s = match String.split_on_char '.' s with [a; b] -> (n a, n b) | _ -> failwith "bad pair"

let parse_upd kv : update =
  let (sh, rp) = parse_key (get kv "k") in
  let (t, v, c) = dot3 (get kv "st") in
  let (si, st) = dot2 (get kv "sn") in
  { u_shard = sh; u_replica = rp; u_state = { hs_term = t; hs_vote = v; hs_commit = c };
    u_save = parse_ents (get kv "sv"); u_committed = parse_ents (get kv "ce");
    u_snap_index = si; u_snap_term = st; u_msgs = parse_msgs (get kv "ms"); u_fast = (get kv "fa" = "1") }

type ev =
  | Q of n * (n * n) * msg            (* worker, key, msg *)
  | W of (n * n) * msg
  | P of n * n * update               (* batch, worker, update *)
  | A of (n * n) * n
  | C of (n * n) * image
  | F of (n * n)
  | R of (n * n)
  | X

let parse_event (s : string) : ev =
  match split_ws s with
  | [] -> failwith "empty event"
  | kind :: toks ->
    let kv = kv_of toks in
    (match kind with
     | "Q" -> Q (n (get kv "w"), parse_key (get kv "k"), parse_msg (get kv "m"))
     | "W" -> W (parse_key (get kv "k"), parse_msg (get kv "m"))
     | "P" -> P (n (get kv "b"), n (get kv "w"), parse_upd kv)
     | "A" -> A (parse_key (get kv "k"), n (get kv "i"))
     | "F" -> F (parse_key (get kv "k"))
     | "R" -> R (parse_key (get kv "k"))
     | "X" -> X
     | "C" ->
       let (t, v, c) = dot3 (get kv "st") in
       let (si, st) = dot2 (get kv "sn") in
       C (parse_key (get kv "k"),
          { i_term = t; i_vote = v; i_commit = c; i_snap_index = si; i_snap_term = st; i_log = parse_ents (get kv "lg") })
     | _ -> failwith ("bad event kind " ^ kind))

let parse_events (body : string) : ev list =
  List.filter_map (fun p -> let p = String.trim p in if p = "" then None else Some (parse_event p))
    (split_on " ; " body)

let key_str (a, b) = s_of a ^ "." ^ s_of b
let key_cmp (a1, b1) (a2, b2) =
  let c = compare (int_of_n a1) (int_of_n a2) in if c <> 0 then c else compare (int_of_n b1) (int_of_n b2)

let tok k (m : msg) = "S" ^ key_str k ^ ":" ^ s_of m.m_type ^ ">" ^ s_of m.m_to

let skeleton_tokens (effs : effect list) : string list =
  List.filter_map (fun e ->
    match e with
    | Send (k, m) -> Some (tok k m)
    | Persist u -> Some ("P" ^ key_str (ukey u))
    | _ -> None) effs

let uniq_sorted cmp l =
  let l = List.sort cmp l in
  let rec go = function a :: (b :: _ as r) -> if cmp a b = 0 then go r else a :: go r | x -> x in
  go l

let do_trace (live : bool) (id : string) (body : string) =
  let evs = parse_events body in
  (* replicas *)
  let keys = uniq_sorted key_cmp (List.filter_map (function
      | Q (_, k, _) | W (k, _) | A (k, _) | C (k, _) | F k | R k -> Some k
      | P (_, _, u) -> Some (ukey u)
      | X -> None) evs) in
  List.iter (fun k ->
    let tevs = List.filter_map (function
        | Q (_, k', m) | W (k', m) -> if k' = k then Some (TSend m) else None
        | P (_, _, u) -> if ukey u = k then Some (TPersist u) else None
        | A (k', i) -> if k' = k then Some (TApply i) else None
        | C (k', g) -> if k' = k then Some (TRecover g) else None
        | F k' -> if k' = k then Some TLost else None
        | _ -> None) evs in
    let ((st, pos), code) = trace_run (tstate0 image0) N0 tevs in
    let verdict = if code = N0 then "ok" else "bad@" ^ s_of pos ^ ":" ^ s_of code in
    Printf.printf "%s rep %s %s t=%s v=%s last=%s ack=%s/%s\n" id (key_str k) verdict
      (s_of st.ts_img.i_term) (s_of st.ts_img.i_vote) (s_of (last_durable st.ts_img))
      (s_of st.ts_ack_term) (s_of st.ts_ack_index)) keys;
  (* workers (recorded runs only): the observed synchronous Send/Persist order of each step
     worker must be the model's order for the recorded batches. Segments end at a crash
     instant X (observed may stop anywhere; free-order sends of the batch that was cut may
     trail) or at the end of the trace. *)
  if live then begin
    let workers = uniq_sorted (fun a b -> compare (int_of_n a) (int_of_n b))
        (List.filter_map (function Q (w, _, _) -> Some w | P (_, w, _) -> Some w | _ -> None) evs) in
    let rec segments cur acc = function
      | [] -> List.rev ((List.rev cur, false) :: acc)
      | X :: r -> segments [] ((List.rev cur, true) :: acc) r
      | e :: r -> segments (e :: cur) acc r in
    let segs = segments [] [] evs in
    List.iter (fun w ->
      let ok = List.for_all (fun (seg, cut) ->
        let obs = List.filter_map (function
            | Q (w', k, m) when w' = w && int_of_n m.m_type <> 22 (* SnapshotReceived: sent by the transport *) ->
              Some (tok k m, is_free_order_message m.m_type)
            | P (_, w', u) when w' = w -> Some ("P" ^ key_str (ukey u), false)
            | _ -> None) seg in
        let ps = List.filter_map (function P (b, w', u) when w' = w -> Some (b, u) | _ -> None) seg in
        let rec batches seen = function
          | [] -> []
          | (b, _) :: r -> if List.mem b seen then batches seen r else b :: batches (b :: seen) r in
        let expected = List.concat_map (fun b ->
            let us = List.filter_map (fun (b', u) -> if b' = b then Some u else None) ps in
            skeleton_tokens (step_skeleton us)) (batches [] ps) in
        let rec cmp i o e =
          match o, e with
          | [], [] -> true
          | [], _ :: _ -> if cut then true else (Printf.eprintf "%s worker %s: %d expected token(s) not observed\n" id (s_of w) (List.length e); false)
          | _ :: _, [] ->
            if cut && List.for_all snd o then true
            else (Printf.eprintf "%s worker %s: token %d: unexpected %s\n" id (s_of w) i (fst (List.hd o)); false)
          | (t, _) :: o', t' :: e' ->
            if t = t' then cmp (i + 1) o' e'
            else (Printf.eprintf "%s worker %s: token %d: observed %s, model %s\n" id (s_of w) i t t'; false) in
        cmp 0 obs expected) segs in
      Printf.printf "%s worker %s %s\n" id (s_of w) (if ok then "ok" else "bad")) workers
  end

let () =
  iter_lines (fun line ->
    if String.trim line <> "" then begin
      let (id, kind, rest) =
        match String.index_opt line ' ' with
        | None -> (line, "", "")
        | Some i ->
          let r = String.sub line (i + 1) (String.length line - i - 1) in
          (match String.index_opt r ' ' with
           | None -> (String.sub line 0 i, r, "")
           | Some j -> (String.sub line 0 i, String.sub r 0 j, String.sub r (j + 1) (String.length r - j - 1))) in
      try
        match kind with
        | "sfa" ->
          let kv = kv_of (split_ws rest) in
          let ce = parse_ents (get kv "ce") and sv = parse_ents (get kv "sv") in
          if not (validate_update (n (get kv "commit")) ce sv) then Printf.printf "%s sfa panic\n" id
          else Printf.printf "%s sfa fast=%d\n" id (if set_fast_apply (n (get kv "snap")) ce sv then 1 else 0)
        | "eng" ->
          let body = if String.length rest >= 2 && String.sub rest 0 2 = "| " then String.sub rest 2 (String.length rest - 2) else "" in
          let us = List.filter_map (fun p -> let p = String.trim p in
                                     if p = "" then None else Some (parse_upd (kv_of (split_ws p)))) (split_on " ; " body) in
          Printf.printf "%s eng %s\n" id (String.concat " " (skeleton_tokens (step_skeleton us)))
        | "ondisk" ->
          let body =
            match Str.search_forward (Str.regexp_string "| ") rest 0 with
            | i -> String.sub rest (i + 2) (String.length rest - i - 2)
            | exception Not_found -> "" in
          let evs = List.filter_map (fun p ->
              match split_ws p with
              | [] -> None
              | ["OA"; i] -> Some (OApply (n i))
              | ["OS"; i] -> Some (OSync (n i))
              | ["ON"; i] -> Some (OSnap (n i))
              | ["OX"; i] -> Some (OCut (n i))
              | ["OF"] -> Some OFail
              | _ -> failwith ("bad on-disk event " ^ p)) (split_on " ; " body) in
          let ((st, pos), code) = odsm_run { os_synced = N0; os_snap = N0 } N0 evs in
          if code = N0 then Printf.printf "%s od ok synced=%s snap=%s\n" id (s_of st.os_synced) (s_of st.os_snap)
          else Printf.printf "%s od bad@%s:%s synced=%s snap=%s\n" id (s_of pos) (s_of code) (s_of st.os_synced) (s_of st.os_snap)
        | "live" | "trace" ->
          let body =
            match Str.search_forward (Str.regexp_string "| ") rest 0 with
            | i -> String.sub rest (i + 2) (String.length rest - i - 2)
            | exception Not_found -> "" in
          (match parse_events body with
           | exception _ -> Printf.printf "%s malformed\n" id
           | _ -> do_trace (kind = "live") id body)
        | _ -> Printf.printf "%s unknown-kind\n" id
      with Failure m -> Printf.printf "%s driver-error %s\n" id m
    end)
