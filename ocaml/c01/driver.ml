(* C01 model driver: reads recorded histories (cases written by harness/cmd/c01 gen),
   runs the extracted certificate checker on "log order with each read inserted
   after the prefix it observed" and prints the lines the Go side prints. *)
open Model
open Util

let cut_on (sep : string) (s : string) : (string * string) option =
  let n = String.length sep and l = String.length s in
  let rec go i =
    if i + n > l then None
    else if String.sub s i n = sep then Some (String.sub s 0 i, String.sub s (i + n) (l - i - n))
    else go (i + 1) in
  go 0

let split_str (sep : string) (s : string) : string list =
  let rec go s acc =
    match cut_on sep s with
    | None -> List.rev (s :: acc)
    | Some (a, b) -> go b (a :: acc) in
  go s []

let parse_event (e : string) (obs : (n * nat) list ref) : event option =
  match split_ws e with
  | ["I"; id; "W"; k; v] -> Some (Inv (n_of_string id, OpWrite (n_of_string k, n_of_string v)))
  | ["I"; id; "R"; k] -> Some (Inv (n_of_string id, OpRead (n_of_string k)))
  | ["R"; id; code; v; ver; o] ->
    let id = n_of_string id in
    let oc = outcome_of_code (n_of_string code) (n_of_string v, n_of_string ver) in
    (* only the first response of an id counts, as in find_resp *)
    if not (List.mem_assoc id !obs) then obs := (id, nat_of_int (int_of_string o)) :: !obs;
    Some (Resp (id, oc))
  | [] -> None
  | _ -> failwith ("bad event: " ^ e)

let show_state (s : kv) : string =
  let cmp_n a b =
    let sa = string_of_n a and sb = string_of_n b in
    if String.length sa <> String.length sb then compare (String.length sa) (String.length sb)
    else compare sa sb in
  let l = List.sort (fun (k1, _) (k2, _) -> cmp_n k1 k2) s in
  if l = [] then "-"
  else String.concat "," (List.map (fun (k, (v, ver)) ->
         string_of_n k ^ ":" ^ string_of_n v ^ ":" ^ string_of_n ver) l)

let () =
  iter_lines (fun line ->
    if String.trim line <> "" then begin
      let head, body = match cut_on " | " line with
        | Some (a, b) -> (a, b) | None -> (line, "") in
      match split_ws head with
      | id :: "HIST" :: fields ->
        (try
          let log = ref [] and logkv = ref [] and final = ref "?" in
          List.iter (fun f ->
            match cut_on "=" f with
            | Some ("log", v) ->
              if v <> "-" && v <> "" then begin
                let ents = List.map (fun x ->
                  match String.split_on_char ':' x with
                  | [i; k; v] -> (n_of_string i, (n_of_string k, n_of_string v))
                  | _ -> failwith "bad log entry") (String.split_on_char ',' v) in
                log := List.map fst ents; logkv := ents
              end
            | Some ("final", v) -> final := v
            | _ -> ()) fields;
          let obs = ref [] in
          let h = List.filter_map (fun e -> parse_event e obs)
                    (if body = "" then [] else split_str " ; " body) in
          let obs_l = List.rev !obs in
          (* as the Go side (normalise): a log entry whose invocation is not in the
             history (only while the shrinker removes events) is a write invoked
             before everything else that never got an answer *)
          let invoked = Hashtbl.create 64 in
          List.iter (function Inv (i, _) -> Hashtbl.replace invoked i () | _ -> ()) h;
          let front = List.filter_map (fun (i, (k, v)) ->
            if Hashtbl.mem invoked i then None
            else begin Hashtbl.replace invoked i (); Some (Inv (i, OpWrite (k, v))) end) !logkv in
          let h = front @ h in
          Printf.printf "%s WF %s\n" id (if wf_histb h then "true" else "false");
          (* check_log h log obs_l = check_witness h (weave h log (assoc_nat . obs_l)); the
             association list is replaced by a hash table with the same content *)
          let tbl = Hashtbl.create 256 in
          List.iter (fun (i, o) -> if not (Hashtbl.mem tbl i) then Hashtbl.add tbl i o) obs_l;
          let obsf i = try Hashtbl.find tbl i with Not_found -> O in
          Printf.printf "%s LIN %s\n" id (if check_witness h (weave h !log obsf) then "ok" else "bad");
          Printf.printf "%s FINAL %s\n" id (show_state (log_state h !log))
        with Failure _ | Invalid_argument _ -> Printf.printf "%s UNPARSED\n" id)
      | id :: _ -> Printf.printf "%s UNPARSED\n" id
      | [] -> ()
    end)
