package main

import (
	"fmt"
	"go/ast"
	"go/token"
	"math/big"
	"strings"
)

// R22: facts about the glue of node.go / quiesce.go / queue.go / request.go that the node level
// model (coq/Model/NodeGlue.v) and its theorems depend on: which requests and messages are
// recorded as activity by the quiesce state machine, where rate limited proposals are refused.

func r22Sel(e ast.Expr) string {
	switch x := e.(type) {
	case *ast.Ident:
		return x.Name
	case *ast.SelectorExpr:
		s := r22Sel(x.X)
		if s == "" {
			return ""
		}
		return s + "." + x.Sel.Name
	case *ast.CallExpr:
		return r22Sel(x.Fun) + "()"
	case *ast.ParenExpr:
		return r22Sel(x.X)
	}
	return ""
}

// r22Calls returns the selector strings of every call inside n, with the selector of the first
// argument appended after a space when it is a plain selector (n.qs.record pb.ReadIndex).
func r22Calls(n ast.Node) []string {
	var out []string
	ast.Inspect(n, func(x ast.Node) bool {
		if c, ok := x.(*ast.CallExpr); ok {
			s := r22Sel(c.Fun)
			if len(c.Args) > 0 {
				if a := r22Sel(c.Args[0]); a != "" {
					s += " " + a
				}
			}
			out = append(out, s)
		}
		return true
	})
	return out
}

func r22Has(calls []string, prefix string) bool {
	for _, c := range calls {
		if strings.HasPrefix(c, prefix) {
			return true
		}
	}
	return false
}

func r22PbConst(name string) *big.Int {
	return loadPkg("raftpb").Const(strings.TrimPrefix(name, "pb."))
}

func r22List(name string, vs []*big.Int) string {
	var s []string
	for _, v := range vs {
		s = append(s, v.String())
	}
	return fmt.Sprintf("Definition %s : list N := [%s].\n", name, strings.Join(s, "; "))
}

// node.handleMessage: the message types with a case of their own (the function returns
// done = true for them: they are not recorded by the quiesce state machine and not handed
// to the raft peer); the default case must return false.
func r22HandledTypes() []*big.Int {
	fn := loadPkg(".").Func("node", "handleMessage")
	var out []*big.Int
	defaultFalse := false
	ast.Inspect(fn.Body, func(n ast.Node) bool {
		sw, ok := n.(*ast.SwitchStmt)
		if !ok || r22Sel(sw.Tag) != "m.Type" {
			return true
		}
		for _, st := range sw.Body.List {
			cc := st.(*ast.CaseClause)
			if cc.List == nil {
				for _, s := range cc.Body {
					if r, isR := s.(*ast.ReturnStmt); isR && len(r.Results) == 2 && r22Sel(r.Results[0]) == "false" {
						defaultFalse = true
					}
				}
				continue
			}
			for _, e := range cc.List {
				out = append(out, r22PbConst(r22Sel(e)))
			}
		}
		return false
	})
	if !defaultFalse || len(out) == 0 {
		panic("node.handleMessage: switch on m.Type with a default that returns false not found")
	}
	// the function must end with `return true, nil`
	last := fn.Body.List[len(fn.Body.List)-1]
	if r, ok := last.(*ast.ReturnStmt); !ok || len(r.Results) != 2 || r22Sel(r.Results[0]) != "true" {
		panic("node.handleMessage does not end with return true, nil")
	}
	return out
}

// the case of pb.Quiesce in node.handleMessage calls n.qs.tryEnterQuiesce
func r22QuiesceMessageTriesEnter() bool {
	fn := loadPkg(".").Func("node", "handleMessage")
	found := false
	ast.Inspect(fn.Body, func(n ast.Node) bool {
		if cc, ok := n.(*ast.CaseClause); ok {
			for _, e := range cc.List {
				if r22Sel(e) == "pb.Quiesce" {
					found = r22Has(r22Calls(cc), "n.qs.tryEnterQuiesce")
				}
			}
		}
		return true
	})
	return found
}

// quiesceState.record: the message types compared with msgType in the heartbeat test
func r22HeartbeatTypes() []*big.Int {
	fn := loadPkg(".").Func("quiesceState", "record")
	var out []*big.Int
	for _, st := range fn.Body.List {
		is, ok := st.(*ast.IfStmt)
		if !ok {
			continue
		}
		ast.Inspect(is.Cond, func(n ast.Node) bool {
			if be, isB := n.(*ast.BinaryExpr); isB && be.Op == token.EQL && r22Sel(be.X) == "msgType" {
				out = append(out, r22PbConst(r22Sel(be.Y)))
			}
			return true
		})
	}
	if len(out) == 0 {
		panic("quiesceState.record: no comparison of msgType found")
	}
	return out
}

// node.recordMessage: `if (heartbeat types) && m.Hint > 0 { n.qs.record(pb.ReadIndex) } else { n.qs.record(m.Type) }`
func r22RecordHintAsRead() bool {
	fn := loadPkg(".").Func("node", "recordMessage")
	if len(fn.Body.List) != 1 {
		panic("node.recordMessage: one if statement expected")
	}
	is, ok := fn.Body.List[0].(*ast.IfStmt)
	if !ok || is.Else == nil {
		panic("node.recordMessage: if/else expected")
	}
	hint := false
	ast.Inspect(is.Cond, func(n ast.Node) bool {
		if be, isB := n.(*ast.BinaryExpr); isB && be.Op == token.GTR && r22Sel(be.X) == "m.Hint" {
			hint = true
		}
		return true
	})
	thenRead := r22Has(r22Calls(is.Body), "n.qs.record pb.ReadIndex")
	elseType := r22Has(r22Calls(is.Else), "n.qs.record m.Type")
	if !elseType {
		panic("node.recordMessage: the else branch does not record m.Type")
	}
	return hint && thenRead
}

// node.handleReceivedMessages: n.recordMessage(m) is called, before n.p.Handle(m), inside `if !done`
func r22RecordBeforeHandle() bool {
	fn := loadPkg(".").Func("node", "handleReceivedMessages")
	ok := false
	ast.Inspect(fn.Body, func(n ast.Node) bool {
		is, isIf := n.(*ast.IfStmt)
		if !isIf {
			return true
		}
		if u, isU := is.Cond.(*ast.UnaryExpr); isU && u.Op == token.NOT && r22Sel(u.X) == "done" {
			calls := r22Calls(is.Body)
			ri, hi := -1, -1
			for i, c := range calls {
				if strings.HasPrefix(c, "n.recordMessage") && ri < 0 {
					ri = i
				}
				if strings.HasPrefix(c, "n.p.Handle") && hi < 0 {
					hi = i
				}
			}
			ok = ri >= 0 && hi > ri
		}
		return true
	})
	return ok
}

func r22BodyRecords(method string) bool {
	return r22Has(r22Calls(loadPkg(".").Func("node", method).Body), "n.qs.record")
}

// node.tick: n.qs.tick() first, then `if n.qs.quiesced() { QuiescedTick } else { Tick }`, and the
// four pending tables are ticked after it in either case
func r22TickShape() (quiescedTick bool, tablesAlways bool) {
	fn := loadPkg(".").Func("node", "tick")
	tables := 0
	for _, st := range fn.Body.List {
		switch x := st.(type) {
		case *ast.IfStmt:
			if r22Sel(x.Cond) == "n.qs.quiesced()" && x.Else != nil {
				quiescedTick = r22Has(r22Calls(x.Body), "n.p.QuiescedTick") && r22Has(r22Calls(x.Else), "n.p.Tick")
			}
		case *ast.ExprStmt:
			c := r22Sel(x.X)
			if strings.HasPrefix(c, "n.pending") && strings.HasSuffix(c, ".tick()") {
				tables++
			}
		}
	}
	return quiescedTick, tables == 4
}

// node.handleProposals: `paused := logDBBusy || n.rateLimited`, n.rateLimited assigned from
// n.p.RateLimited(), and the queue is read with get(paused)
func r22ProposalsPausedByRateLimit() bool {
	fn := loadPkg(".").Func("node", "handleProposals")
	polled, paused, get := false, false, false
	ast.Inspect(fn.Body, func(n ast.Node) bool {
		switch x := n.(type) {
		case *ast.AssignStmt:
			if len(x.Lhs) == 1 && len(x.Rhs) == 1 {
				l := r22Sel(x.Lhs[0])
				if l == "rateLimited" && r22Sel(x.Rhs[0]) == "n.p.RateLimited()" {
					polled = true
				}
				if l == "paused" {
					if be, ok := x.Rhs[0].(*ast.BinaryExpr); ok && be.Op == token.LOR &&
						(r22Sel(be.X) == "n.rateLimited" || r22Sel(be.Y) == "n.rateLimited") {
						paused = true
					}
				}
			}
		case *ast.CallExpr:
			if r22Sel(x.Fun) == "n.incomingProposals.get" && len(x.Args) == 1 && r22Sel(x.Args[0]) == "paused" {
				get = true
			}
		}
		return true
	})
	return polled && paused && get
}

// entryQueue.add: the first statement after the lock refuses (returns false) when q.paused;
// entryQueue.get stores its argument in q.paused
func r22QueueRefusesWhenPaused() bool {
	p := loadPkg(".")
	add := p.Func("entryQueue", "add")
	refuses := false
	for _, st := range add.Body.List {
		is, ok := st.(*ast.IfStmt)
		if !ok {
			continue
		}
		mentions := false
		ast.Inspect(is.Cond, func(n ast.Node) bool {
			if r22Sel2(n) == "q.paused" {
				mentions = true
			}
			return true
		})
		if mentions {
			for _, s := range is.Body.List {
				if r, isR := s.(*ast.ReturnStmt); isR && len(r.Results) == 2 && r22Sel(r.Results[0]) == "false" {
					refuses = true
				}
			}
		}
		break
	}
	get := p.Func("entryQueue", "get")
	stores := false
	ast.Inspect(get.Body, func(n ast.Node) bool {
		if as, ok := n.(*ast.AssignStmt); ok && len(as.Lhs) == 1 && r22Sel(as.Lhs[0]) == "q.paused" && r22Sel(as.Rhs[0]) == "paused" {
			stores = true
		}
		return true
	})
	return refuses && stores
}

func r22Sel2(n ast.Node) string {
	if e, ok := n.(ast.Expr); ok {
		return r22Sel(e)
	}
	return ""
}

// proposalShard.propose: `if !added { ... return nil, ErrSystemBusy }`
func r22BusyWhenNotAdded() bool {
	fn := loadPkg(".").Func("proposalShard", "propose")
	ok := false
	ast.Inspect(fn.Body, func(n ast.Node) bool {
		is, isIf := n.(*ast.IfStmt)
		if !isIf {
			return true
		}
		if u, isU := is.Cond.(*ast.UnaryExpr); isU && u.Op == token.NOT && r22Sel(u.X) == "added" {
			for _, s := range is.Body.List {
				if r, isR := s.(*ast.ReturnStmt); isR && len(r.Results) == 2 && r22Sel(r.Results[1]) == "ErrSystemBusy" {
					ok = true
				}
			}
		}
		return true
	})
	return ok
}

// newNode: quiesceState{electionTick: config.ElectionRTT * K, enabled: config.Quiesce}
func r22QuiesceElectionFactor() *big.Int {
	p := loadPkg(".")
	fn := p.Func("", "newNode")
	var out *big.Int
	enabled := false
	ast.Inspect(fn.Body, func(n ast.Node) bool {
		cl, ok := n.(*ast.CompositeLit)
		if !ok || r22Sel(cl.Type) != "quiesceState" {
			return true
		}
		for _, el := range cl.Elts {
			kv, isKV := el.(*ast.KeyValueExpr)
			if !isKV {
				continue
			}
			switch r22Sel(kv.Key) {
			case "electionTick":
				if be, isB := kv.Value.(*ast.BinaryExpr); isB && be.Op == token.MUL && r22Sel(be.X) == "config.ElectionRTT" {
					out = p.Eval(be.Y, 0)
				}
			case "enabled":
				enabled = r22Sel(kv.Value) == "config.Quiesce"
			}
		}
		return false
	})
	if out == nil || !enabled {
		panic("newNode: quiesceState{electionTick: config.ElectionRTT * K, enabled: config.Quiesce} not found")
	}
	return out
}

// quiesceState.threshold: q.electionTick * K
func r22QuiesceThresholdFactor() *big.Int {
	p := loadPkg(".")
	fn := p.Func("quiesceState", "threshold")
	if len(fn.Body.List) == 1 {
		if r, ok := fn.Body.List[0].(*ast.ReturnStmt); ok && len(r.Results) == 1 {
			if be, isB := r.Results[0].(*ast.BinaryExpr); isB && be.Op == token.MUL && r22Sel(be.X) == "q.electionTick" {
				return p.Eval(be.Y, 0)
			}
		}
	}
	panic("quiesceState.threshold: return q.electionTick * K expected")
}

func init() {
	mt := func(coq, name string) Fact {
		return NFact(coq, func() *big.Int { return r22PbConst(name) })
	}
	register(&Unit{Name: "R22", Facts: []Fact{
		mt("mt_local_tick", "LocalTick"), mt("mt_quiesce", "Quiesce"), mt("mt_heartbeat", "Heartbeat"),
		mt("mt_heartbeat_resp", "HeartbeatResp"), mt("mt_read_index", "ReadIndex"), mt("mt_propose", "Propose"),
		mt("mt_replicate", "Replicate"), mt("mt_config_change_event", "ConfigChangeEvent"),
		mt("mt_snapshot_status", "SnapshotStatus"), mt("mt_unreachable", "Unreachable"),
		mt("mt_request_vote", "RequestVote"), mt("mt_request_prevote", "RequestPreVote"), mt("mt_rate_limit", "RateLimit"),
		{Name: "node_handled_types", Gen: func() string { return r22List("node_handled_types", r22HandledTypes()) }},
		{Name: "quiesce_heartbeat_types", Gen: func() string { return r22List("quiesce_heartbeat_types", r22HeartbeatTypes()) }},
		{Name: "quiesce_message_tries_enter", Gen: func() string {
			return defBool("quiesce_message_tries_enter", r22QuiesceMessageTriesEnter())
		}},
		{Name: "record_hint_as_read", Gen: func() string { return defBool("record_hint_as_read", r22RecordHintAsRead()) }},
		{Name: "record_before_handle", Gen: func() string { return defBool("record_before_handle", r22RecordBeforeHandle()) }},
		{Name: "read_index_records_quiesce", Gen: func() string {
			return defBool("read_index_records_quiesce", r22BodyRecords("handleReadIndex"))
		}},
		{Name: "config_change_records_quiesce", Gen: func() string {
			return defBool("config_change_records_quiesce", r22BodyRecords("handleConfigChange"))
		}},
		{Name: "proposals_record_quiesce", Gen: func() string {
			return defBool("proposals_record_quiesce", r22BodyRecords("handleProposals"))
		}},
		{Name: "snapshot_request_records_quiesce", Gen: func() string {
			return defBool("snapshot_request_records_quiesce", r22BodyRecords("handleSnapshot"))
		}},
		{Name: "tick_shape", Gen: func() string {
			a, b := r22TickShape()
			return defBool("tick_uses_quiesced_tick", a) + defBool("tick_expires_requests_when_quiesced", b)
		}},
		{Name: "proposals_paused_by_rate_limit", Gen: func() string {
			return defBool("proposals_paused_by_rate_limit", r22ProposalsPausedByRateLimit())
		}},
		{Name: "queue_refuses_when_paused", Gen: func() string {
			return defBool("queue_refuses_when_paused", r22QueueRefusesWhenPaused())
		}},
		{Name: "busy_when_not_added", Gen: func() string { return defBool("busy_when_not_added", r22BusyWhenNotAdded()) }},
		NFact("node_quiesce_election_factor", r22QuiesceElectionFactor),
		NFact("quiesce_threshold_factor", r22QuiesceThresholdFactor),
	}})
}
