package main

import (
	"fmt"
	"go/ast"
	"math/big"
)

// keyedLit finds the value of `key: <expr>` inside any composite literal of pkg
// (used for the defaults in settings.getDefaultSoftSettings and NewLogReader).
func c19KeyedLit(p *Pkg, fn *ast.FuncDecl, key string) *big.Int {
	var out []*big.Int
	ast.Inspect(fn.Body, func(n ast.Node) bool {
		if kv, ok := n.(*ast.KeyValueExpr); ok {
			if id, ok := kv.Key.(*ast.Ident); ok && id.Name == key {
				out = append(out, p.Eval(kv.Value, 0))
			}
		}
		return true
	})
	return Unanimous(key, out, 1)
}

// c19TypeSpec finds `type name ...` in pkg.
func c19TypeSpec(p *Pkg, name string) ast.Expr {
	for _, f := range p.Files {
		for _, d := range f.Decls {
			if gd, ok := d.(*ast.GenDecl); ok {
				for _, sp := range gd.Specs {
					if ts, ok := sp.(*ast.TypeSpec); ok && ts.Name.Name == name {
						return ts.Type
					}
				}
			}
		}
	}
	panic("type " + name + " not found in " + p.Dir)
}

// c19SizeAlign: size and alignment (amd64/arm64 rules) of the field types that
// occur in raftpb.Entry.
func c19SizeAlign(p *Pkg, e ast.Expr) (int64, int64) {
	switch t := e.(type) {
	case *ast.Ident:
		switch t.Name {
		case "uint64", "int64", "uint", "int", "uintptr":
			return 8, 8
		case "uint32", "int32":
			return 4, 4
		case "uint16", "int16":
			return 2, 2
		case "uint8", "int8", "byte", "bool":
			return 1, 1
		case "string":
			return 16, 8
		}
		return c19SizeAlign(p, c19TypeSpec(p, t.Name))
	case *ast.ArrayType:
		if t.Len == nil {
			return 24, 8
		}
	}
	panic(fmt.Sprintf("unsupported field type %T", e))
}

// unsafe.Sizeof(pb.Entry{}) recomputed from the struct declaration: the per-entry
// constant of pb.GetEntrySliceInMemSize (what inMemory reports to the rate limiter)
func c19EntryStructSize() *big.Int {
	p := loadPkg("raftpb")
	st, ok := c19TypeSpec(p, "Entry").(*ast.StructType)
	if !ok {
		panic("raftpb.Entry is not a struct")
	}
	var off, maxAlign int64 = 0, 1
	for _, f := range st.Fields.List {
		sz, al := c19SizeAlign(p, f.Type)
		n := len(f.Names)
		if n == 0 {
			n = 1
		}
		for i := 0; i < n; i++ {
			off = (off + al - 1) / al * al
			off += sz
		}
		if al > maxAlign {
			maxAlign = al
		}
	}
	off = (off + maxAlign - 1) / maxAlign * maxAlign
	return big.NewInt(off)
}

func init() {
	register(&Unit{Name: "C19", Facts: []Fact{
		NFact("c19_entry_struct_size", c19EntryStructSize),
		// Entry.SizeUpperLimit() = EntryNonCmdFieldsSize + len(Cmd): the unit of limitSize / maxSize
		NFact("c19_entry_non_cmd_fields_size", func() *big.Int {
			return loadPkg("internal/settings").Const("EntryNonCmdFieldsSize")
		}),
		// settings.Soft.MaxApplyEntrySize default (maxEntriesToApplySize in logentry.go)
		NFact("c19_max_apply_entry_size", func() *big.Int {
			p := loadPkg("internal/settings")
			return c19KeyedLit(p, p.Func("", "getDefaultSoftSettings"), "MaxApplyEntrySize")
		}),
		// NewLogReader starts with length: 1 (the marker entry)
		NFact("c19_logreader_init_length", func() *big.Int {
			p := loadPkg("internal/logdb")
			return c19KeyedLit(p, p.Func("", "NewLogReader"), "length")
		}),
	}})
}
