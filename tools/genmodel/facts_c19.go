package main

import (
	"go/ast"
	"math/big"
)

// keyedLit finds the value of `key: <expr>` inside any composite literal of pkg
// (used for the defaults in settings.getDefaultSoftSettings and NewLogReader).
func c19KeyedLit(p *Pkg, fn *ast.FuncDecl, key string) *big.Int {
	var out []*big.Int
	ast.Inspect(fn.Body, func(n ast.Node) bool {
		if kv, ok := n.(*ast.KeyValueExpr); ok {
			if id, ok := kv.Key.(*ast.Ident); ok && id.Name == key {
				out = append(out, p.Eval(kv.Value, 0))
			}
		}
		return true
	})
	return Unanimous(key, out, 1)
}

func init() {
	register(&Unit{Name: "C19", Facts: []Fact{
		// Entry.SizeUpperLimit() = EntryNonCmdFieldsSize + len(Cmd): the unit of limitSize / maxSize
		NFact("c19_entry_non_cmd_fields_size", func() *big.Int {
			return loadPkg("internal/settings").Const("EntryNonCmdFieldsSize")
		}),
		// settings.Soft.MaxApplyEntrySize default (maxEntriesToApplySize in logentry.go)
		NFact("c19_max_apply_entry_size", func() *big.Int {
			p := loadPkg("internal/settings")
			return c19KeyedLit(p, p.Func("", "getDefaultSoftSettings"), "MaxApplyEntrySize")
		}),
		// NewLogReader starts with length: 1 (the marker entry)
		NFact("c19_logreader_init_length", func() *big.Int {
			p := loadPkg("internal/logdb")
			return c19KeyedLit(p, p.Func("", "NewLogReader"), "length")
		}),
	}})
}
