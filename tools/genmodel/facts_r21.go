package main

// R21: role restrictions at the NodeHost API and event level. Facts about the glue code
// (node.go, nodehost.go, event.go, config/config.go, internal/raft newRaft, internal/rsm Save):
// where the witness guards stand, what config validation refuses, and that the leader-report
// path copies the fields it is given.

import (
	"go/ast"
	"go/token"
	"go/types"
)

func r21ExprString(e ast.Expr) string { return types.ExprString(e) }

// `if <cond> { return ..., <errName> }` where cond renders as condText
func r21IfReturns(st ast.Stmt, condText string, errName string) bool {
	is, ok := st.(*ast.IfStmt)
	if !ok || is.Init != nil || is.Else != nil || r21ExprString(is.Cond) != condText || len(is.Body.List) != 1 {
		return false
	}
	rs, ok := is.Body.List[0].(*ast.ReturnStmt)
	if !ok || len(rs.Results) == 0 {
		return false
	}
	return r21ExprString(rs.Results[len(rs.Results)-1]) == errName
}

func r21Mentions(n ast.Node, text string) bool {
	found := false
	ast.Inspect(n, func(m ast.Node) bool {
		if e, ok := m.(ast.Expr); ok && !found {
			if r21ExprString(e) == text {
				found = true
			}
		}
		return !found
	})
	return found
}

func r21CallsMethod(n ast.Node, method string) bool {
	found := false
	ast.Inspect(n, func(m ast.Node) bool {
		if ce, ok := m.(*ast.CallExpr); ok {
			if sel, ok := ce.Fun.(*ast.SelectorExpr); ok && sel.Sel.Name == method {
				found = true
			}
		}
		return !found
	})
	return found
}

// node.<fn>: the first statement refuses a replica that is not initialized with
// ErrShardNotReady, the second refuses a witness with ErrInvalidOperation; nothing touches a
// request table before.
func r21NodeGuard(fn string) bool {
	body := loadPkg(".").Func("node", fn).Body.List
	if len(body) < 3 {
		return false
	}
	return r21IfReturns(body[0], "!n.initialized()", "ErrShardNotReady") &&
		r21IfReturns(body[1], "n.isWitness()", "ErrInvalidOperation")
}

// index of the first top-level statement satisfying p, -1 if none
func r21Index(body []ast.Stmt, p func(ast.Stmt) bool) int {
	for i, st := range body {
		if p(st) {
			return i
		}
	}
	return -1
}

// NodeHost.ProposeSession: the witness guard precedes the session-support panic check and the
// call of node.proposeSession
func r21NHProposeSessionGuard() bool {
	body := loadPkg(".").Func("NodeHost", "ProposeSession").Body.List
	g := r21Index(body, func(st ast.Stmt) bool { return r21IfReturns(st, "n.isWitness()", "ErrInvalidOperation") })
	c := r21Index(body, func(st ast.Stmt) bool { return r21CallsMethod(st, "proposeSession") })
	p := r21Index(body, func(st ast.Stmt) bool { return r21CallsMethod(st, "supportClientSession") })
	return g >= 0 && c > g && (p < 0 || p > g)
}

// NodeHost.StaleRead: closed, not found, not initialized, witness - in this order, all before Lookup
func r21NHStaleReadGuard() bool {
	body := loadPkg(".").Func("NodeHost", "StaleRead").Body.List
	i := r21Index(body, func(st ast.Stmt) bool { return r21IfReturns(st, "!n.initialized()", "ErrShardNotInitialized") })
	g := r21Index(body, func(st ast.Stmt) bool { return r21IfReturns(st, "n.isWitness()", "ErrInvalidOperation") })
	l := r21Index(body, func(st ast.Stmt) bool { return r21CallsMethod(st, "Lookup") })
	return i >= 0 && g > i && l > g
}

// NodeHost.propose: a session that is not the NoOP session panics on a node without session
// support before node.propose is called
func r21NHProposeSessionCheck() bool {
	body := loadPkg(".").Func("NodeHost", "propose").Body.List
	p := r21Index(body, func(st ast.Stmt) bool {
		is, ok := st.(*ast.IfStmt)
		if !ok || r21ExprString(is.Cond) != "!v.supportClientSession() && !s.IsNoOPSession()" || len(is.Body.List) != 1 {
			return false
		}
		es, ok := is.Body.List[0].(*ast.ExprStmt)
		if !ok {
			return false
		}
		ce, ok := es.X.(*ast.CallExpr)
		if !ok {
			return false
		}
		id, ok := ce.Fun.(*ast.Ident)
		return ok && id.Name == "panic"
	})
	c := r21Index(body, func(st ast.Stmt) bool { return r21CallsMethod(st, "propose") })
	return p >= 0 && c > p
}

// a function whose body is the single statement `return <text>`
func r21Returns(recv, fn, text string) bool {
	body := loadPkg(".").Func(recv, fn).Body.List
	if len(body) != 1 {
		return false
	}
	rs, ok := body[0].(*ast.ReturnStmt)
	return ok && len(rs.Results) == 1 && r21ExprString(rs.Results[0]) == text
}

// config.Config.Validate: `if <cond> { return <non-nil> }` at top level
func r21ValidateRefuses(cond string) bool {
	body := loadPkg("config").Func("Config", "Validate").Body.List
	return r21Index(body, func(st ast.Stmt) bool {
		is, ok := st.(*ast.IfStmt)
		if !ok || r21ExprString(is.Cond) != cond || len(is.Body.List) != 1 {
			return false
		}
		rs, ok := is.Body.List[0].(*ast.ReturnStmt)
		return ok && len(rs.Results) == 1 && r21ExprString(rs.Results[0]) != "nil"
	}) >= 0
}

// raft.newRaft starts with `if err := c.Validate(); err != nil { panic(err) }`
func r21NewRaftValidates() bool {
	body := loadPkg("internal/raft").Func("", "newRaft").Body.List
	if len(body) == 0 {
		return false
	}
	is, ok := body[0].(*ast.IfStmt)
	if !ok || is.Init == nil || r21ExprString(is.Cond) != "err != nil" || len(is.Body.List) != 1 {
		return false
	}
	as, ok := is.Init.(*ast.AssignStmt)
	if !ok || len(as.Rhs) != 1 || r21ExprString(as.Rhs[0]) != "c.Validate()" {
		return false
	}
	es, ok := is.Body.List[0].(*ast.ExprStmt)
	return ok && r21ExprString(es.X) == "panic(err)"
}

// rsm.StateMachine.Save: `if s.isWitness { plog.Panicf(...) }` at top level before anything is saved
func r21RsmSavePanicsOnWitness() bool {
	body := loadPkg("internal/rsm").Func("StateMachine", "Save").Body.List
	g := r21Index(body, func(st ast.Stmt) bool {
		is, ok := st.(*ast.IfStmt)
		return ok && r21ExprString(is.Cond) == "s.isWitness" && r21CallsMethod(is.Body, "Panicf")
	})
	sv := r21Index(body, func(st ast.Stmt) bool { return r21CallsMethod(st, "save") || r21CallsMethod(st, "concurrentSave") })
	return g >= 0 && sv > g
}

// a composite literal of the named type inside fn whose fields are exactly want
func r21Literal(fd *ast.FuncDecl, typeName string, want map[string]string) bool {
	ok := false
	ast.Inspect(fd.Body, func(n ast.Node) bool {
		cl, isCL := n.(*ast.CompositeLit)
		if !isCL {
			return true
		}
		tn := ""
		switch t := cl.Type.(type) {
		case *ast.Ident:
			tn = t.Name
		case *ast.SelectorExpr:
			tn = t.Sel.Name
		}
		if tn != typeName || len(cl.Elts) != len(want) {
			return true
		}
		all := true
		for _, el := range cl.Elts {
			kv, isKV := el.(*ast.KeyValueExpr)
			if !isKV || want[r21ExprString(kv.Key)] != r21ExprString(kv.Value) {
				all = false
			}
		}
		if all {
			ok = true
		}
		return true
	})
	return ok
}

// raft.setLeaderID: the leader id and the CURRENT term go into the update handed to the engine
// and into the event, the event is sent when leader or term differ from the last one sent
func r21SetLeaderIDStraight() bool {
	fd := loadPkg("internal/raft").Func("raft", "setLeaderID")
	upd := r21Literal(fd, "LeaderUpdate", map[string]string{"LeaderID": "leaderID", "Term": "r.term"})
	info := r21Literal(fd, "LeaderInfo", map[string]string{"ShardID": "r.shardID", "ReplicaID": "r.replicaID", "LeaderID": "leaderID", "Term": "r.term"})
	cond := r21Mentions(fd.Body, "(r.term == 0 && leaderID == NoLeader) || leaderID != r.prevLeader.LeaderID || r.term != r.prevLeader.Term")
	return upd && info && cond
}

// raftEventListener.LeaderUpdated copies shard, replica, term and leader into the public record
// and queues it
func r21EventStraight() bool {
	fd := loadPkg(".").Func("raftEventListener", "LeaderUpdated")
	lit := r21Literal(fd, "LeaderInfo", map[string]string{"ShardID": "info.ShardID", "ReplicaID": "info.ReplicaID", "Term": "info.Term", "LeaderID": "info.LeaderID"})
	return lit && r21CallsMethod(fd.Body, "addLeaderInfo")
}

// node.processLeaderUpdate stores (leader, term) of every update whose term is not 0
func r21ProcessLeaderUpdateStraight() bool {
	fd := loadPkg(".").Func("node", "processLeaderUpdate")
	body := fd.Body.List
	if len(body) != 3 {
		return false
	}
	is, ok := body[0].(*ast.IfStmt)
	if !ok || r21ExprString(is.Cond) != "u.Term == 0" || len(is.Body.List) != 1 {
		return false
	}
	if rs, isRS := is.Body.List[0].(*ast.ReturnStmt); !isRS || len(rs.Results) != 0 {
		return false
	}
	return r21Literal(fd, "leaderInfo", map[string]string{"leaderID": "u.LeaderID", "term": "u.Term"}) &&
		r21CallsMethod(body[2], "Store")
}

// node.getLeaderID returns the stored pair and valid = leader != NoLeader
func r21GetLeaderIDStraight() bool {
	fd := loadPkg(".").Func("node", "getLeaderID")
	body := fd.Body.List
	rs, ok := body[len(body)-1].(*ast.ReturnStmt)
	if !ok || len(rs.Results) != 3 {
		return false
	}
	return r21ExprString(rs.Results[0]) == "leaderInfo.leaderID" && r21ExprString(rs.Results[1]) == "leaderInfo.term" &&
		r21ExprString(rs.Results[2]) == "leaderInfo.leaderID != raft.NoLeader"
}

// the listener pump: handleListenerEvents hands every queued record to the user's listener
func r21PumpStraight() bool {
	fd := loadPkg(".").Func("NodeHost", "handleListenerEvents")
	gets, calls := false, false
	ast.Inspect(fd.Body, func(n ast.Node) bool {
		if as, ok := n.(*ast.AssignStmt); ok && as.Tok == token.DEFINE && len(as.Rhs) == 1 {
			if r21ExprString(as.Rhs[0]) == "nh.events.leaderInfoQ.getLeaderInfo()" && len(as.Lhs) == 2 && r21ExprString(as.Lhs[0]) == "v" {
				gets = true
			}
		}
		if es, ok := n.(*ast.ExprStmt); ok && r21ExprString(es.X) == "nh.events.raft.LeaderUpdated(v)" {
			calls = true
		}
		return true
	})
	return gets && calls
}

func init() {
	b := func(name string, f func() bool) Fact {
		return Fact{Name: name, Gen: func() string { return defBool(name, f()) }}
	}
	register(&Unit{Name: "R21", Facts: []Fact{
		b("src_guard_propose", func() bool { return r21NodeGuard("propose") }),
		b("src_guard_propose_session", func() bool { return r21NodeGuard("proposeSession") }),
		b("src_guard_read", func() bool { return r21NodeGuard("read") }),
		b("src_guard_leader_transfer", func() bool { return r21NodeGuard("requestLeaderTransfer") }),
		b("src_guard_snapshot", func() bool { return r21NodeGuard("requestSnapshot") }),
		b("src_guard_query_log", func() bool { return r21NodeGuard("queryRaftLog") }),
		b("src_guard_config_change", func() bool { return r21NodeGuard("requestConfigChange") }),
		b("src_guard_nh_propose_session", r21NHProposeSessionGuard),
		b("src_guard_nh_stale_read", r21NHStaleReadGuard),
		b("src_nh_propose_session_check", r21NHProposeSessionCheck),
		b("src_is_witness_is_config_flag", func() bool { return r21Returns("node", "isWitness", "n.config.IsWitness") }),
		b("src_session_support_excludes_witness", func() bool {
			return r21Returns("node", "supportClientSession", "!n.OnDiskStateMachine() && !n.isWitness()")
		}),
		b("src_validate_witness_no_snapshot", func() bool { return r21ValidateRefuses("c.IsWitness && c.SnapshotEntries > 0") }),
		b("src_validate_witness_not_nonvoting", func() bool { return r21ValidateRefuses("c.IsWitness && c.IsNonVoting") }),
		b("src_new_raft_validates", r21NewRaftValidates),
		b("src_rsm_save_panics_on_witness", r21RsmSavePanicsOnWitness),
		b("src_set_leader_id_straight", r21SetLeaderIDStraight),
		b("src_event_fields_straight", r21EventStraight),
		b("src_listener_pump_straight", r21PumpStraight),
		b("src_process_leader_update_straight", r21ProcessLeaderUpdateStraight),
		b("src_get_leader_id_straight", r21GetLeaderIDStraight),
	}})
}
