package main

import (
	"fmt"
	"go/ast"
	"go/token"
	"sort"
	"strings"
)

// typedConsts lists the constants of a named type declared in a package, in
// declaration order, with their values.
func (p *Pkg) typedConsts(typ string) (names []string, vals []int64) {
	for _, fn := range sortedFiles(p) {
		f := p.Files[fn]
		for _, d := range f.Decls {
			gd, ok := d.(*ast.GenDecl)
			if !ok || gd.Tok != token.CONST {
				continue
			}
			curType := ""
			for i, s := range gd.Specs {
				vs := s.(*ast.ValueSpec)
				if vs.Type != nil {
					if id, ok := vs.Type.(*ast.Ident); ok {
						curType = id.Name
					} else {
						curType = ""
					}
				} else if len(vs.Values) > 0 {
					curType = ""
				}
				_ = i
				if curType != typ {
					continue
				}
				for _, n := range vs.Names {
					if n.Name == "_" {
						continue
					}
					names = append(names, n.Name)
					vals = append(vals, p.Const(n.Name).Int64())
				}
			}
		}
	}
	return
}

func sortedFiles(p *Pkg) []string {
	var out []string
	for n := range p.Files {
		out = append(out, n)
	}
	sort.Strings(out)
	return out
}

// disjunctionOf parses `return t == pb.A || t == pb.B ...` (or m.Type == ...)
func disjunctionOf(p *Pkg, fn *ast.FuncDecl) []string {
	var names []string
	if len(fn.Body.List) != 1 {
		panic(fmt.Sprintf("%s: body is not a single return", fn.Name.Name))
	}
	ret, ok := fn.Body.List[0].(*ast.ReturnStmt)
	if !ok || len(ret.Results) != 1 {
		panic(fmt.Sprintf("%s: body is not a single return", fn.Name.Name))
	}
	var walk func(e ast.Expr)
	walk = func(e ast.Expr) {
		switch x := e.(type) {
		case *ast.ParenExpr:
			walk(x.X)
		case *ast.BinaryExpr:
			if x.Op == token.LOR {
				walk(x.X)
				walk(x.Y)
				return
			}
			if x.Op == token.EQL {
				if sel, ok := x.Y.(*ast.SelectorExpr); ok {
					names = append(names, sel.Sel.Name)
					return
				}
			}
			panic(fmt.Sprintf("%s: unexpected expression shape", fn.Name.Name))
		default:
			panic(fmt.Sprintf("%s: unexpected expression shape", fn.Name.Name))
		}
	}
	walk(ret.Results[0])
	return names
}

func predDef(coqName string, names []string) string {
	var parts []string
	for _, n := range names {
		parts = append(parts, "(t =? mt_"+n+")")
	}
	return fmt.Sprintf("Definition %s (t : N) : bool := %s.\n", coqName, strings.Join(parts, " || "))
}

type cell struct{ state, mtype, handler string }

func handlerTable(p *Pkg) []cell {
	fn := p.Func("raft", "initializeHandlerMap")
	var cells []cell
	for _, st := range fn.Body.List {
		as, ok := st.(*ast.AssignStmt)
		if !ok || len(as.Lhs) != 1 || len(as.Rhs) != 1 {
			panic("initializeHandlerMap: statement is not a single assignment")
		}
		ix2, ok := as.Lhs[0].(*ast.IndexExpr)
		if !ok {
			panic("initializeHandlerMap: unexpected lhs")
		}
		ix1, ok := ix2.X.(*ast.IndexExpr)
		if !ok {
			panic("initializeHandlerMap: unexpected lhs")
		}
		state := ix1.Index.(*ast.Ident).Name
		mt := ix2.Index.(*ast.SelectorExpr).Sel.Name
		var h string
		switch r := as.Rhs[0].(type) {
		case *ast.SelectorExpr:
			h = r.Sel.Name
		case *ast.CallExpr: // lw(r, r.handleX)
			if id, ok := r.Fun.(*ast.Ident); !ok || id.Name != "lw" || len(r.Args) != 2 {
				panic("initializeHandlerMap: unexpected wrapper")
			}
			h = r.Args[1].(*ast.SelectorExpr).Sel.Name
		default:
			panic("initializeHandlerMap: unexpected rhs")
		}
		cells = append(cells, cell{state, mt, h})
	}
	return cells
}

func init() {
	register(&Unit{Name: "Raft", Imports: "From Coq Require Import Bool.", Facts: []Fact{
		{Name: "message types", Gen: func() string {
			names, vals := loadPkg("raftpb").typedConsts("MessageType")
			var b strings.Builder
			for i, n := range names {
				fmt.Fprintf(&b, "Definition mt_%s : N := %d.\n", n, vals[i])
			}
			fmt.Fprintf(&b, "Definition num_message_types : N := %s.\n", loadPkg("internal/raft").Const("numMessageTypes"))
			fmt.Fprintf(&b, "Definition message_type_values : list N := [%s].\n", joinInts(vals))
			return b.String()
		}},
		{Name: "entry types", Gen: func() string {
			names, vals := loadPkg("raftpb").typedConsts("EntryType")
			var b strings.Builder
			for i, n := range names {
				fmt.Fprintf(&b, "Definition et_%s : N := %d.\n", n, vals[i])
			}
			return b.String()
		}},
		{Name: "config change types", Gen: func() string {
			names, vals := loadPkg("raftpb").typedConsts("ConfigChangeType")
			var b strings.Builder
			for i, n := range names {
				fmt.Fprintf(&b, "Definition cc_%s : N := %d.\n", n, vals[i])
			}
			return b.String()
		}},
		{Name: "raft states", Gen: func() string {
			p := loadPkg("internal/raft")
			var b strings.Builder
			for _, n := range []string{"follower", "candidate", "preVoteCandidate", "leader", "nonVoting", "witness", "numStates"} {
				fmt.Fprintf(&b, "Definition st_%s : N := %s.\n", n, p.Const(n))
			}
			return b.String()
		}},
		{Name: "message classes", Gen: func() string {
			p := loadPkg("internal/raft")
			var b strings.Builder
			for _, pr := range [][2]string{
				{"isLocalMessageType", "is_local_message_type"},
				{"isResponseMessageType", "is_response_message_type"},
				{"isRequestMessage", "is_request_message"},
				{"isLeaderMessage", "is_leader_message"},
				{"isRequestVoteMessage", "is_request_vote_message"},
				{"isPreVoteMessage", "is_prevote_message"}} {
				b.WriteString(predDef(pr[1], disjunctionOf(p, p.Func("", pr[0]))))
			}
			return b.String()
		}},
		{Name: "free order messages (node.go)", Gen: func() string {
			p := loadPkg(".")
			return predDef("is_free_order_message", disjunctionOf(p, p.Func("", "isFreeOrderMessage")))
		}},
		predFact("internal/raft", "raft", "canGrantVote", "gen_canGrantVote", "bool", raftEnums),
		predFact("internal/raft", "raft", "numVotingMembers", "gen_numVotingMembers", "N", raftEnums),
		predFact("internal/raft", "raft", "quorum", "gen_quorum", "N", raftEnums),
		predFact("internal/raft", "raft", "isSingleNodeQuorum", "gen_isSingleNodeQuorum", "bool", raftEnums),
		predFact("internal/raft", "raft", "timeForElection", "gen_timeForElection", "bool", raftEnums),
		predFact("internal/raft", "raft", "timeForHeartbeat", "gen_timeForHeartbeat", "bool", raftEnums),
		predFact("internal/raft", "raft", "timeForCheckQuorum", "gen_timeForCheckQuorum", "bool", raftEnums),
		predFact("internal/raft", "raft", "timeToAbortLeaderTransfer", "gen_timeToAbortLeaderTransfer", "bool", raftEnums),
		predFact("internal/raft", "raft", "leaderTransfering", "gen_leaderTransfering", "bool", raftEnums),
		predFact("internal/raft", "raft", "hasConfigChangeToApply", "gen_hasConfigChangeToApply", "bool", raftEnums),
		predFact("internal/raft", "", "isPreVoteMessageWithExpectedHigherTerm", "gen_isPreVoteMessageWithExpectedHigherTerm", "bool", raftEnums),
		{Name: "handler table", Gen: func() string {
			p := loadPkg("internal/raft")
			cells := handlerTable(p)
			hs := map[string]bool{}
			for _, c := range cells {
				hs[c.handler] = true
			}
			var names []string
			for h := range hs {
				names = append(names, h)
			}
			sort.Strings(names)
			var b strings.Builder
			b.WriteString("Inductive handler :=\n| H_none\n")
			for _, h := range names {
				fmt.Fprintf(&b, "| H_%s\n", h)
			}
			b.WriteString(".\n")
			b.WriteString("Definition handler_cells : list (N * N * handler) := [\n")
			for i, c := range cells {
				sep := ";"
				if i == len(cells)-1 {
					sep = ""
				}
				fmt.Fprintf(&b, "  (st_%s, mt_%s, H_%s)%s\n", c.state, c.mtype, c.handler, sep)
			}
			b.WriteString("].\n")
			b.WriteString("Fixpoint handler_lookup (cells : list (N * N * handler)) (s t : N) : handler :=\n" +
				"  match cells with\n  | [] => H_none\n  | (s', t', h) :: r => if (s =? s') && (t =? t') then h else handler_lookup r s t\n  end.\n")
			// a later assignment to the same cell overrides an earlier one in Go: look up in reverse order
			b.WriteString("Definition handler_of (s t : N) : handler := handler_lookup (rev handler_cells) s t.\n")
			return b.String()
		}},
	}})
}

func joinInts(v []int64) string {
	var s []string
	for _, x := range v {
		s = append(s, fmt.Sprint(x))
	}
	return strings.Join(s, "; ")
}

func raftEnums() map[string]string {
	out := map[string]string{}
	p := loadPkg("raftpb")
	for typ, pre := range map[string]string{"MessageType": "mt_", "EntryType": "et_", "ConfigChangeType": "cc_"} {
		names, _ := p.typedConsts(typ)
		for _, n := range names {
			out[n] = pre + n
		}
	}
	return out
}
