package main

import (
	"fmt"
	"go/ast"
	"math/big"
	"sort"
	"strings"
)

// C12: facts about request.go / node.go the Requests model and its proofs depend on.

// recvName returns the receiver type name of a method declaration.
func recvName(fd *ast.FuncDecl) string {
	if fd.Recv == nil || len(fd.Recv.List) == 0 {
		return ""
	}
	t := fd.Recv.List[0].Type
	if s, ok := t.(*ast.StarExpr); ok {
		t = s.X
	}
	if id, ok := t.(*ast.Ident); ok {
		return id.Name
	}
	return ""
}

// selString renders a.b.c selector chains ("" for anything else).
func selString(e ast.Expr) string {
	switch x := e.(type) {
	case *ast.Ident:
		return x.Name
	case *ast.SelectorExpr:
		s := selString(x.X)
		if s == "" {
			return ""
		}
		return s + "." + x.Sel.Name
	}
	return ""
}

func callName(s ast.Stmt) string {
	switch x := s.(type) {
	case *ast.ExprStmt:
		if c, ok := x.X.(*ast.CallExpr); ok {
			return selString(c.Fun)
		}
	case *ast.DeferStmt:
		return "defer " + selString(x.Call.Fun)
	}
	return ""
}

// wholeBodyLocked: the method body starts with `<r>.mu.Lock()` and
// `defer <r>.mu.Unlock()` (possibly after statements that do not touch shared
// state: none are accepted here except a leading `if` that only returns or panics),
// i.e. the whole method is one critical section of the table mutex.
func wholeBodyLocked(fd *ast.FuncDecl) bool {
	st := fd.Body.List
	// skip leading guards that return/panic before taking the lock
	for len(st) > 0 {
		if is, ok := st[0].(*ast.IfStmt); ok && is.Else == nil && is.Init == nil {
			st = st[1:]
			continue
		}
		break
	}
	if len(st) < 2 {
		return false
	}
	a, b := callName(st[0]), callName(st[1])
	return strings.HasSuffix(a, ".mu.Lock") && strings.HasPrefix(b, "defer ") && strings.HasSuffix(b, ".mu.Unlock")
}

// callsUnderLock reports whether every call of a method named callee inside fd
// is lexically inside a region where the receiver mutex is held
// (Lock ... Unlock in the same block, or Lock + defer Unlock at the top).
func callsUnderLock(fd *ast.FuncDecl, callee string) (found bool, under bool) {
	under = true
	var walk func(list []ast.Stmt, held bool)
	hasCall := func(n ast.Node) bool {
		r := false
		ast.Inspect(n, func(m ast.Node) bool {
			if c, ok := m.(*ast.CallExpr); ok {
				if s, ok := c.Fun.(*ast.SelectorExpr); ok && s.Sel.Name == callee {
					r = true
				}
			}
			return true
		})
		return r
	}
	walk = func(list []ast.Stmt, held bool) {
		for _, s := range list {
			cn := callName(s)
			if strings.HasSuffix(cn, ".mu.Lock") && !strings.HasPrefix(cn, "defer") {
				held = true
				continue
			}
			if strings.HasSuffix(cn, ".mu.Unlock") && !strings.HasPrefix(cn, "defer") {
				held = false
				continue
			}
			switch x := s.(type) {
			case *ast.IfStmt:
				if x.Init != nil && hasCall(x.Init) {
					found = true
					if !held {
						under = false
					}
				}
				walk(x.Body.List, held)
				if eb, ok := x.Else.(*ast.BlockStmt); ok {
					walk(eb.List, held)
				}
			case *ast.ForStmt:
				walk(x.Body.List, held)
			case *ast.RangeStmt:
				walk(x.Body.List, held)
			case *ast.BlockStmt:
				walk(x.List, held)
			default:
				if hasCall(s) {
					found = true
					if !held {
						under = false
					}
				}
			}
		}
	}
	walk(fd.Body.List, false)
	return
}

// stoppedBranchCalls: inside fd, the body of `if <r>.stopped {` (or `if <r>.mu.stopped {`)
// contains a call of a method named callee.
func stoppedBranchCalls(fd *ast.FuncDecl, callee string) bool {
	res := false
	ast.Inspect(fd.Body, func(n ast.Node) bool {
		is, ok := n.(*ast.IfStmt)
		if !ok {
			return true
		}
		if !strings.HasSuffix(selString(is.Cond), ".stopped") {
			return true
		}
		ast.Inspect(is.Body, func(m ast.Node) bool {
			if c, ok := m.(*ast.CallExpr); ok {
				if s, ok := c.Fun.(*ast.SelectorExpr); ok && s.Sel.Name == callee {
					res = true
				}
			}
			return true
		})
		return true
	})
	return res
}

// stoppedBranchReturnsErr: `if <r>....stopped { return nil, <errName> }` occurs in fd.
func stoppedBranchReturns(fd *ast.FuncDecl, errName string) bool {
	res := false
	ast.Inspect(fd.Body, func(n ast.Node) bool {
		is, ok := n.(*ast.IfStmt)
		if !ok || !strings.HasSuffix(selString(is.Cond), ".stopped") {
			return true
		}
		for _, s := range is.Body.List {
			if r, ok := s.(*ast.ReturnStmt); ok {
				if errName == "" {
					res = true
				}
				for _, e := range r.Results {
					if selString(e) == errName {
						res = true
					}
				}
			}
		}
		return true
	})
	return res
}

func coqStringList(name string, xs []string) string {
	q := make([]string, len(xs))
	for i, x := range xs {
		q[i] = fmt.Sprintf("%q%%string", x)
	}
	return fmt.Sprintf("Definition %s : list string := [%s].\n", name, strings.Join(q, "; "))
}

func init() {
	root := func() *Pkg { return loadPkg(".") }
	codes := []string{"requestTimeout", "requestCompleted", "requestTerminated", "requestRejected",
		"requestDropped", "requestAborted", "requestCommitted", "requestOutOfRange"}
	u := &Unit{Name: "C12"}
	u.Facts = append(u.Facts, NFact("default_gc_tick", func() *big.Int { return root().Const("defaultGCTick") }))
	for _, c := range codes {
		c := c
		u.Facts = append(u.Facts, NFact("code_"+c, func() *big.Int { return root().Const(c) }))
	}
	u.Facts = append(u.Facts,
		// which table methods are one critical section of the table mutex from
		// the first to the last statement
		Fact{Name: "locked_methods", Gen: func() string {
			p := root()
			var out []string
			for _, f := range p.Files {
				for _, d := range f.Decls {
					fd, ok := d.(*ast.FuncDecl)
					if !ok || fd.Body == nil {
						continue
					}
					r := recvName(fd)
					switch r {
					case "proposalShard", "pendingReadIndex", "pendingConfigChange", "pendingSnapshot",
						"pendingRaftLogQuery", "readIndexQueue", "entryQueue":
						if wholeBodyLocked(fd) {
							out = append(out, r+"."+fd.Name.Name)
						}
					}
				}
			}
			sort.Strings(out)
			return coqStringList("locked_methods", out)
		}},
		// proposalShard.committed sends the Committed notification while the
		// shard mutex is held (either itself or through a helper it calls
		// that is wholly locked)
		Fact{Name: "proposal_committed_under_lock", Gen: func() string {
			p := root()
			fd := p.Func("proposalShard", "committed")
			found, under := callsUnderLock(fd, "committed")
			if !found {
				// delegated: accept only a wholly locked helper that makes the call
				ok := false
				ast.Inspect(fd.Body, func(n ast.Node) bool {
					if c, isCall := n.(*ast.CallExpr); isCall {
						if s, isSel := c.Fun.(*ast.SelectorExpr); isSel {
							func() {
								defer func() { _ = recover() }()
								h := p.Func("proposalShard", s.Sel.Name)
								f2, _ := callsUnderLock(h, "committed")
								if f2 && wholeBodyLocked(h) {
									ok = true
								}
							}()
						}
					}
					return true
				})
				return defBool("proposal_committed_under_lock", ok)
			}
			return defBool("proposal_committed_under_lock", under || wholeBodyLocked(fd))
		}},
		// pendingReadIndex.add terminates the requests it is handed when the table is stopped
		Fact{Name: "read_add_terminates_when_stopped", Gen: func() string {
			return defBool("read_add_terminates_when_stopped",
				stoppedBranchCalls(root().Func("pendingReadIndex", "add"), "terminated"))
		}},
		// pendingReadIndex.add stores a COPY of the slice it is handed (the slice is one of
		// the two reusable buffers of readIndexQueue; a batch aliasing it would be
		// overwritten by later client reads)
		Fact{Name: "read_add_copies_its_argument", Gen: func() string {
			fd := root().Func("pendingReadIndex", "add")
			param := ""
			for _, f := range fd.Type.Params.List {
				if at, ok := f.Type.(*ast.ArrayType); ok && at.Len == nil && len(f.Names) == 1 {
					param = f.Names[0].Name
				}
			}
			copied, storedDirect := false, false
			ast.Inspect(fd.Body, func(n ast.Node) bool {
				switch x := n.(type) {
				case *ast.CallExpr:
					if id, ok := x.Fun.(*ast.Ident); ok && id.Name == "copy" && len(x.Args) == 2 {
						if a, ok := x.Args[1].(*ast.Ident); ok && a.Name == param {
							copied = true
						}
					}
				case *ast.KeyValueExpr:
					if k, ok := x.Key.(*ast.Ident); ok && k.Name == "requests" {
						if v, ok := x.Value.(*ast.Ident); ok && v.Name == param {
							storedDirect = true
						}
					}
				}
				return true
			})
			return defBool("read_add_copies_its_argument", param != "" && copied && !storedDirect)
		}},
		// node.tick advances the logical clock of every request table on every path that
		// does not fail: the four table ticks are top-level statements of node.tick, called
		// with its tick parameter, and no statement before the last of them can return
		// anything but a raft error (`return err`) - in particular not the quiesced branch
		Fact{Name: "node_tick_advances_all_tables", Gen: func() string {
			fd := root().Func("node", "tick")
			param := ""
			if len(fd.Type.Params.List) == 1 && len(fd.Type.Params.List[0].Names) == 1 {
				param = fd.Type.Params.List[0].Names[0].Name
			}
			want := map[string]bool{"n.pendingSnapshot.tick": false, "n.pendingProposals.tick": false,
				"n.pendingReadIndexes.tick": false, "n.pendingConfigChange.tick": false}
			last := -1
			for i, st := range fd.Body.List {
				es, ok := st.(*ast.ExprStmt)
				if !ok {
					continue
				}
				c, ok := es.X.(*ast.CallExpr)
				if !ok || len(c.Args) != 1 {
					continue
				}
				name := selString(c.Fun)
				if _, w := want[name]; w {
					if a, ok := c.Args[0].(*ast.Ident); ok && a.Name == param {
						want[name] = true
						last = i
					}
				}
			}
			ok := param != "" && last >= 0
			for _, v := range want {
				ok = ok && v
			}
			if ok {
				for _, st := range fd.Body.List[:last] {
					ast.Inspect(st, func(n ast.Node) bool {
						if r, isRet := n.(*ast.ReturnStmt); isRet {
							if !(len(r.Results) == 1 && selString(r.Results[0]) == "err") {
								ok = false
							}
						}
						return true
					})
				}
			}
			return defBool("node_tick_advances_all_tables", ok)
		}},
		// proposalShard.propose registers the request in the shard's pending table BEFORE it hands
		// the entry to the proposal queue, and removes it again when the queue refuses the entry:
		// "referenced before enqueued" (ProposeA then ProposeB in the model)
		Fact{Name: "propose_registers_before_enqueue", Gen: func() string {
			fd := root().Func("proposalShard", "propose")
			reg, add, del := -1, -1, 0
			for i, st := range fd.Body.List {
				ast.Inspect(st, func(n ast.Node) bool {
					switch x := n.(type) {
					case *ast.AssignStmt:
						for _, l := range x.Lhs {
							if ix, ok := l.(*ast.IndexExpr); ok && strings.HasSuffix(selString(ix.X), ".pending") && reg < 0 {
								reg = i
							}
						}
					case *ast.CallExpr:
						if strings.HasSuffix(selString(x.Fun), ".proposals.add") && add < 0 {
							add = i
						}
						if id, ok := x.Fun.(*ast.Ident); ok && id.Name == "delete" && len(x.Args) == 2 &&
							strings.HasSuffix(selString(x.Args[0]), ".pending") && add >= 0 && i > add {
							del++
						}
					}
					return true
				})
			}
			return defBool("propose_registers_before_enqueue", reg >= 0 && add >= 0 && reg < add && del >= 2)
		}},
		// pendingReadIndex.genCtx draws the Low half of a ctx from the process wide random source
		// (raft matches heartbeat responses to ReadIndex rounds by ctx, across replicas) and High = tick + 30
		Fact{Name: "read_ctx_low_is_random", Gen: func() string {
			fd := root().Func("pendingReadIndex", "genCtx")
			ok := false
			ast.Inspect(fd.Body, func(n ast.Node) bool {
				if kv, isKV := n.(*ast.KeyValueExpr); isKV {
					if k, isID := kv.Key.(*ast.Ident); isID && k.Name == "Low" {
						if c, isCall := kv.Value.(*ast.CallExpr); isCall && selString(c.Fun) == "random.LockGuardedRand.Uint64" {
							ok = true
						}
					}
				}
				return true
			})
			return defBool("read_ctx_low_is_random", ok)
		}},
		// node.processReadyToRead releases reads against ud.LastApplied only
		Fact{Name: "ready_to_read_uses_last_applied", Gen: func() string {
			fd := root().Func("node", "processReadyToRead")
			n, good := 0, 0
			ast.Inspect(fd.Body, func(x ast.Node) bool {
				if c, isCall := x.(*ast.CallExpr); isCall && strings.HasSuffix(selString(c.Fun), ".pendingReadIndexes.applied") {
					n++
					if len(c.Args) == 1 && selString(c.Args[0]) == "ud.LastApplied" {
						good++
					}
				}
				return true
			})
			return defBool("ready_to_read_uses_last_applied", n == 1 && good == 1)
		}},
		// the single-slot tables refuse a new request whenever the slot is occupied: the busy test is
		// exactly `pending != nil`, whatever the deadline of the occupant (gc / close / apply look at the
		// slot only, an overwritten occupant would never get a result)
		Fact{Name: "single_slot_busy_unconditional", Gen: func() string {
			ok := true
			for _, fn := range [][2]string{{"pendingConfigChange", "request"}, {"pendingSnapshot", "request"}, {"pendingRaftLogQuery", "add"}} {
				fd := root().Func(fn[0], fn[1])
				found := false
				ast.Inspect(fd.Body, func(n ast.Node) bool {
					is, isIf := n.(*ast.IfStmt)
					if !isIf {
						return true
					}
					busy := false
					for _, st := range is.Body.List {
						if r, isRet := st.(*ast.ReturnStmt); isRet {
							for _, e := range r.Results {
								if selString(e) == "ErrSystemBusy" {
									busy = true
								}
							}
						}
					}
					if !busy {
						return true
					}
					if be, isBin := is.Cond.(*ast.BinaryExpr); isBin && be.Op.String() == "!=" &&
						strings.HasSuffix(selString(be.X), ".pending") && selString(be.Y) == "nil" {
						found = true
					}
					return true
				})
				ok = ok && found
			}
			return defBool("single_slot_busy_unconditional", ok)
		}},
		// getRng seeds the proposal key generator of every incarnation of every replica from the pid and
		// the clock read inside getRng (per call), the shard, the replica and the table shard
		Fact{Name: "proposal_key_seed_per_incarnation", Gen: func() string {
			fd := root().Func("", "getRng")
			pid, nano := false, false
			ast.Inspect(fd.Body, func(n ast.Node) bool {
				if c, isCall := n.(*ast.CallExpr); isCall {
					if selString(c.Fun) == "os.Getpid" {
						pid = true
					}
					if se, isSel := c.Fun.(*ast.SelectorExpr); isSel && se.Sel.Name == "UnixNano" {
						if in, isIn := se.X.(*ast.CallExpr); isIn && selString(in.Fun) == "time.Now" {
							nano = true
						}
					}
				}
				return true
			})
			return defBool("proposal_key_seed_per_incarnation", pid && nano)
		}},
		// node.close() closes every request table, in this order
		Fact{Name: "node_close_tables", Gen: func() string {
			fd := root().Func("node", "close")
			var out []string
			for _, st := range fd.Body.List {
				cn := callName(st)
				if strings.HasPrefix(cn, "n.pending") && strings.HasSuffix(cn, ".close") {
					out = append(out, strings.TrimSuffix(strings.TrimPrefix(cn, "n."), ".close"))
				}
			}
			return coqStringList("node_close_tables", out)
		}},
		// node.gc() runs the gc of the three tables that have one of their own
		Fact{Name: "node_gc_tables", Gen: func() string {
			fd := root().Func("node", "gc")
			var out []string
			ast.Inspect(fd.Body, func(n ast.Node) bool {
				if c, ok := n.(*ast.CallExpr); ok {
					cn := selString(c.Fun)
					if strings.HasPrefix(cn, "n.pending") && strings.HasSuffix(cn, ".gc") {
						out = append(out, strings.TrimSuffix(strings.TrimPrefix(cn, "n."), ".gc"))
					}
				}
				return true
			})
			return coqStringList("node_gc_tables", out)
		}},
		// pendingRaftLogQuery.add refuses requests after close
		Fact{Name: "logquery_add_refuses_when_stopped", Gen: func() string {
			return defBool("logquery_add_refuses_when_stopped",
				stoppedBranchReturns(root().Func("pendingRaftLogQuery", "add"), "ErrShardClosed"))
		}},
		// pendingRaftLogQuery.returned ignores a result that arrives after close
		Fact{Name: "logquery_returned_ignored_when_stopped", Gen: func() string {
			return defBool("logquery_returned_ignored_when_stopped",
				stoppedBranchReturns(root().Func("pendingRaftLogQuery", "returned"), ""))
		}},
		// call graph fact: who calls pendingProposals.applied / pendingReadIndexes.applied
		Fact{Name: "proposals_applied_callers", Gen: func() string {
			return coqStringList("proposals_applied_callers", callersOf(root(), "pendingProposals.applied"))
		}},
		Fact{Name: "logquery_returned_callers", Gen: func() string {
			return coqStringList("logquery_returned_callers", callersOf(root(), "pendingRaftLogQuery.returned"))
		}},
	)
	register(u)
}

// callersOf lists "recv.func" of every function of the package whose body
// contains a call whose selector chain ends with suffix.
func callersOf(p *Pkg, suffix string) []string {
	var out []string
	for _, f := range p.Files {
		for _, d := range f.Decls {
			fd, ok := d.(*ast.FuncDecl)
			if !ok || fd.Body == nil {
				continue
			}
			hit := false
			ast.Inspect(fd.Body, func(n ast.Node) bool {
				if c, ok := n.(*ast.CallExpr); ok {
					if strings.HasSuffix(selString(c.Fun), suffix) {
						hit = true
					}
				}
				return true
			})
			if hit {
				out = append(out, recvName(fd)+"."+fd.Name.Name)
			}
		}
	}
	sort.Strings(out)
	return out
}
