// genmodel re-extracts from the working tree of the repository the declarative
// facts the Coq development depends on and writes them as coq/Gen/Gen<Unit>.v.
// A file is only rewritten when its content changes, so an unchanged tree
// triggers no recompilation and a changed fact re-checks every dependent proof.
//
// usage: genmodel <repo> <outdir> [unit ...]
package main

import (
	"bytes"
	"fmt"
	"go/ast"
	"go/parser"
	"go/token"
	"math/big"
	"os"
	"path/filepath"
	"sort"
	"strings"
)

type Pkg struct {
	Dir   string
	Fset  *token.FileSet
	Files map[string]*ast.File
}

var repo string
var pkgCache = map[string]*Pkg{}

func loadPkg(rel string) *Pkg {
	if p, ok := pkgCache[rel]; ok {
		return p
	}
	dir := filepath.Join(repo, rel)
	fset := token.NewFileSet()
	p := &Pkg{Dir: dir, Fset: fset, Files: map[string]*ast.File{}}
	ents, err := os.ReadDir(dir)
	if err != nil {
		panic(fmt.Sprintf("cannot read %s: %v", dir, err))
	}
	for _, e := range ents {
		n := e.Name()
		if e.IsDir() || !strings.HasSuffix(n, ".go") || strings.HasSuffix(n, "_test.go") || strings.HasPrefix(n, "verif_") {
			continue
		}
		f, err := parser.ParseFile(fset, filepath.Join(dir, n), nil, parser.ParseComments)
		if err != nil {
			panic(fmt.Sprintf("parse %s: %v", n, err))
		}
		p.Files[n] = f
	}
	pkgCache[rel] = p
	return p
}

// valueSpec finds the const/var declaration of name and returns its initialiser
// together with the iota value and the (possibly inherited) expression.
func (p *Pkg) valueSpec(name string) (ast.Expr, int, bool) {
	for _, f := range p.Files {
		for _, d := range f.Decls {
			gd, ok := d.(*ast.GenDecl)
			if !ok || (gd.Tok != token.CONST && gd.Tok != token.VAR) {
				continue
			}
			var last []ast.Expr
			for i, s := range gd.Specs {
				vs := s.(*ast.ValueSpec)
				vals := vs.Values
				if len(vals) == 0 && gd.Tok == token.CONST {
					vals = last
				} else {
					last = vals
				}
				for j, n := range vs.Names {
					if n.Name == name {
						if j < len(vals) {
							return vals[j], i, true
						}
						return nil, i, false
					}
				}
			}
		}
	}
	return nil, 0, false
}

// Const evaluates an integer constant (or initialised variable) of the package.
func (p *Pkg) Const(name string) *big.Int {
	e, iota, ok := p.valueSpec(name)
	if !ok {
		panic(fmt.Sprintf("constant %s not found in %s", name, p.Dir))
	}
	return p.Eval(e, iota)
}

// Eval evaluates integer constant expressions: literals, + - * / << >> | &, parens,
// conversions T(x), iota, other constants of the same package and a few known
// cross-package constants (math.MaxUint64 ...).
func (p *Pkg) Eval(e ast.Expr, iota int) *big.Int {
	switch x := e.(type) {
	case *ast.BasicLit:
		if x.Kind == token.CHAR {
			s := x.Value
			return big.NewInt(int64(s[1]))
		}
		v, ok := new(big.Int).SetString(strings.ReplaceAll(x.Value, "_", ""), 0)
		if !ok {
			panic("bad literal " + x.Value)
		}
		return v
	case *ast.ParenExpr:
		return p.Eval(x.X, iota)
	case *ast.Ident:
		if x.Name == "iota" {
			return big.NewInt(int64(iota))
		}
		return p.Const(x.Name)
	case *ast.UnaryExpr:
		v := p.Eval(x.X, iota)
		switch x.Op {
		case token.SUB:
			return new(big.Int).Neg(v)
		case token.ADD:
			return v
		}
	case *ast.CallExpr: // conversion
		if len(x.Args) == 1 {
			return p.Eval(x.Args[0], iota)
		}
	case *ast.SelectorExpr:
		if id, ok := x.X.(*ast.Ident); ok {
			switch id.Name + "." + x.Sel.Name {
			case "math.MaxUint64":
				return new(big.Int).SetUint64(^uint64(0))
			case "math.MaxUint32":
				return new(big.Int).SetUint64(uint64(^uint32(0)))
			case "math.MaxInt32":
				return big.NewInt(1<<31 - 1)
			case "math.MaxInt64":
				return big.NewInt(1<<63 - 1)
			}
			if rel, ok := knownImports[id.Name]; ok {
				return loadPkg(rel).Const(x.Sel.Name)
			}
		}
	case *ast.BinaryExpr:
		a, b := p.Eval(x.X, iota), p.Eval(x.Y, iota)
		switch x.Op {
		case token.ADD:
			return new(big.Int).Add(a, b)
		case token.SUB:
			return new(big.Int).Sub(a, b)
		case token.MUL:
			return new(big.Int).Mul(a, b)
		case token.QUO:
			return new(big.Int).Quo(a, b)
		case token.REM:
			return new(big.Int).Rem(a, b)
		case token.SHL:
			return new(big.Int).Lsh(a, uint(b.Uint64()))
		case token.SHR:
			return new(big.Int).Rsh(a, uint(b.Uint64()))
		case token.OR:
			return new(big.Int).Or(a, b)
		case token.AND:
			return new(big.Int).And(a, b)
		}
	}
	panic(fmt.Sprintf("cannot evaluate expression at %s", p.Fset.Position(e.Pos())))
}

// package selector names used in the repository -> directory
var knownImports = map[string]string{
	"settings": "internal/settings",
	"pb":       "raftpb",
	"raftpb":   "raftpb",
}

// Func returns the declaration of function name with receiver type recv ("" for
// plain functions).
func (p *Pkg) Func(recv, name string) *ast.FuncDecl {
	for _, f := range p.Files {
		for _, d := range f.Decls {
			fd, ok := d.(*ast.FuncDecl)
			if !ok || fd.Name.Name != name {
				continue
			}
			r := ""
			if fd.Recv != nil && len(fd.Recv.List) > 0 {
				t := fd.Recv.List[0].Type
				if s, ok := t.(*ast.StarExpr); ok {
					t = s.X
				}
				if id, ok := t.(*ast.Ident); ok {
					r = id.Name
				}
			}
			if r == recv {
				return fd
			}
		}
	}
	panic(fmt.Sprintf("function %s.%s not found in %s", recv, name, p.Dir))
}

// CmpConsts collects the constant right-hand sides of every comparison `_ op C`
// inside fn where C is a constant expression (evaluation failures are skipped).
func (p *Pkg) CmpConsts(fn *ast.FuncDecl, op token.Token) []*big.Int {
	var out []*big.Int
	ast.Inspect(fn.Body, func(n ast.Node) bool {
		if be, ok := n.(*ast.BinaryExpr); ok && be.Op == op {
			func() {
				defer func() { _ = recover() }()
				out = append(out, p.Eval(be.Y, 0))
			}()
		}
		return true
	})
	return out
}

// Unanimous returns the single value all elements share, or panics.
func Unanimous(what string, vs []*big.Int, min int) *big.Int {
	if len(vs) < min {
		panic(fmt.Sprintf("%s: expected at least %d occurrences, found %d", what, min, len(vs)))
	}
	for _, v := range vs {
		if v.Cmp(vs[0]) != 0 {
			panic(fmt.Sprintf("%s: occurrences disagree (%s vs %s)", what, vs[0], v))
		}
	}
	return vs[0]
}

// ---------------------------------------------------------------------------

// Unit is one generated Coq file.
type Unit struct {
	Name    string
	Imports string
	Facts   []Fact
}

// Fact produces Coq text; a panic inside Gen is turned into a comment plus a
// missing definition, so that exactly the proofs that need the fact break.
type Fact struct {
	Name string
	Gen  func() string
}

var units []*Unit

func register(u *Unit) { units = append(units, u) }

func defN(name string, v *big.Int) string {
	return fmt.Sprintf("Definition %s : N := %s.\n", name, v.String())
}
func defZ(name string, v *big.Int) string {
	return fmt.Sprintf("Definition %s : Z := (%s)%%Z.\n", name, v.String())
}
func defBool(name string, v bool) string {
	return fmt.Sprintf("Definition %s : bool := %v.\n", name, v)
}

// NFact is the common case: one N constant.
func NFact(name string, f func() *big.Int) Fact {
	return Fact{Name: name, Gen: func() string { return defN(name, f()) }}
}

func render(u *Unit) string {
	var b bytes.Buffer
	fmt.Fprintf(&b, "(* GENERATED by /verif/tools/genmodel from the repository's working tree. Do not edit. *)\n")
	fmt.Fprintf(&b, "From Coq Require Import NArith ZArith List String.\nImport ListNotations.\n%s\nOpen Scope N_scope.\n\n", u.Imports)
	for _, f := range u.Facts {
		func() {
			defer func() {
				if r := recover(); r != nil {
					msg := strings.ReplaceAll(fmt.Sprint(r), "*)", "* )")
					fmt.Fprintf(&b, "(* MISSING %s: %s *)\n", f.Name, msg)
					fmt.Fprintf(os.Stderr, "genmodel: %s/%s: %s\n", u.Name, f.Name, msg)
				}
			}()
			s := f.Gen()
			b.WriteString(s)
		}()
	}
	return b.String()
}

func main() {
	if len(os.Args) < 3 {
		fmt.Fprintln(os.Stderr, "usage: genmodel <repo> <outdir> [unit ...]")
		os.Exit(2)
	}
	repo = os.Args[1]
	out := os.Args[2]
	want := map[string]bool{}
	for _, a := range os.Args[3:] {
		want[a] = true
	}
	sort.Slice(units, func(i, j int) bool { return units[i].Name < units[j].Name })
	for _, u := range units {
		if len(want) > 0 && !want[u.Name] {
			continue
		}
		text := render(u)
		path := filepath.Join(out, "Gen"+u.Name+".v")
		old, err := os.ReadFile(path)
		if err == nil && bytes.Equal(old, []byte(text)) {
			continue
		}
		if err := os.WriteFile(path, []byte(text), 0644); err != nil {
			panic(err)
		}
		fmt.Printf("genmodel: wrote %s\n", path)
	}
}
