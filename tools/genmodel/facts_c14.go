package main

import (
	"fmt"
	"go/ast"
	"math/big"
	"strings"
)

// c14KeyedLit finds `Key: value` inside a composite literal returned by fn.
func c14KeyedLit(p *Pkg, fn *ast.FuncDecl, key string) *big.Int {
	var out *big.Int
	ast.Inspect(fn.Body, func(n ast.Node) bool {
		if kv, ok := n.(*ast.KeyValueExpr); ok {
			if id, ok := kv.Key.(*ast.Ident); ok && id.Name == key {
				out = p.Eval(kv.Value, 0)
			}
		}
		return true
	})
	if out == nil {
		panic("key " + key + " not found")
	}
	return out
}

func init() {
	register(&Unit{Name: "C14", Facts: []Fact{
		NFact("snapshot_header_size", func() *big.Int { return loadPkg("internal/settings").Const("SnapshotHeaderSize") }),
		// rwv.go: blockSize = settings.SnapshotChunkSize
		NFact("block_size", func() *big.Int { return loadPkg("internal/rsm").Const("blockSize") }),
		NFact("tail_size", func() *big.Int { return loadPkg("internal/rsm").Const("tailSize") }),
		NFact("checksum_size", func() *big.Int { return loadPkg("internal/rsm").Const("checksumSize") }),
		{Name: "block_magic", Gen: func() string {
			p := loadPkg("internal/settings")
			e, _, ok := p.valueSpec("BlockFileMagicNumber")
			if !ok {
				panic("BlockFileMagicNumber not found")
			}
			cl, ok := e.(*ast.CompositeLit)
			if !ok {
				panic("BlockFileMagicNumber is not a composite literal")
			}
			var xs []string
			for _, el := range cl.Elts {
				xs = append(xs, p.Eval(el, 0).String())
			}
			return fmt.Sprintf("Definition block_magic : list N := [%s].\n", strings.Join(xs, "; "))
		}},
		NFact("ss_v1", func() *big.Int { return loadPkg("internal/rsm").Const("V1") }),
		NFact("ss_v2", func() *big.Int { return loadPkg("internal/rsm").Const("V2") }),
		NFact("ss_default_version", func() *big.Int { return loadPkg("internal/rsm").Const("DefaultVersion") }),
		NFact("checksum_crc32ieee", func() *big.Int { return loadPkg("raftpb").Const("CRC32IEEE") }),
		NFact("default_checksum_type", func() *big.Int { return loadPkg("internal/rsm").Const("defaultChecksumType") }),
		NFact("compression_none", func() *big.Int { return loadPkg("raftpb").Const("NoCompression") }),
		NFact("compression_snappy", func() *big.Int { return loadPkg("raftpb").Const("Snappy") }),
		// settings.Soft default: a size mismatch in pb.Snapshot.Validate panics
		{Name: "panic_on_size_mismatch", Gen: func() string {
			p := loadPkg("internal/settings")
			var val string
			ast.Inspect(p.Func("", "getDefaultSoftSettings").Body, func(n ast.Node) bool {
				if kv, ok := n.(*ast.KeyValueExpr); ok {
					if id, ok := kv.Key.(*ast.Ident); ok && id.Name == "PanicOnSizeMismatch" {
						if v, ok := kv.Value.(*ast.Ident); ok {
							val = v.Name
						}
					}
				}
				return true
			})
			if val != "true" && val != "false" {
				panic("PanicOnSizeMismatch default not found")
			}
			return fmt.Sprintf("Definition panic_on_size_mismatch : bool := %s.\n", val)
		}},
		NFact("lru_max_session_count", func() *big.Int {
			p := loadPkg("internal/settings")
			return c14KeyedLit(p, p.Func("", "getDefaultHardSettings"), "LRUMaxSessionCount")
		}),
	}})
}
