package main

import (
	"bytes"
	"fmt"
	"go/ast"
	"go/printer"
	"math/big"
	"strings"
)

// C01: facts about request.go / nodehost.go / internal/raft/raft.go the
// linearizability model, its driver and the end-to-end harness depend on.

func c01Src(p *Pkg, n ast.Node) string {
	var b bytes.Buffer
	_ = printer.Fprint(&b, p.Fset, n)
	return strings.Join(strings.Fields(b.String()), " ")
}

// c01ErrMap extracts from getRequestState the branches
// `if r.<Pred>() { return ..., <Err> }` as "Pred=Err" (Completed has no error).
func c01ErrMap(p *Pkg) []string {
	fd := p.Func("", "getRequestState")
	var out []string
	ast.Inspect(fd.Body, func(n ast.Node) bool {
		is, ok := n.(*ast.IfStmt)
		if !ok {
			return true
		}
		call, ok := is.Cond.(*ast.CallExpr)
		if !ok {
			return true
		}
		sel, ok := call.Fun.(*ast.SelectorExpr)
		if !ok {
			return true
		}
		for _, st := range is.Body.List {
			if rs, ok := st.(*ast.ReturnStmt); ok && len(rs.Results) == 2 {
				out = append(out, sel.Sel.Name+"="+c01Src(p, rs.Results[1]))
			}
		}
		return true
	})
	return out
}

func init() {
	root := func() *Pkg { return loadPkg(".") }
	u := &Unit{Name: "C01"}
	for _, c := range []string{"requestTimeout", "requestCompleted", "requestTerminated", "requestRejected",
		"requestDropped", "requestAborted", "requestCommitted"} {
		c := c
		u.Facts = append(u.Facts, NFact("c01_code_"+c, func() *big.Int { return root().Const(c) }))
	}
	u.Facts = append(u.Facts,
		// the result -> error translation of the Sync* API (the harness classifies
		// SyncPropose / SyncRead errors with the inverse of this table)
		Fact{Name: "c01_sync_error_map", Gen: func() string {
			return coqStringList("c01_sync_error_map", c01ErrMap(root()))
		}},
		// pendingReadIndex.applied releases a batch only when its read index is
		// known and not above the applied index
		Fact{Name: "c01_read_release_guard", Gen: func() string {
			p := root()
			fd := p.Func("pendingReadIndex", "applied")
			var conds []string
			ast.Inspect(fd.Body, func(n ast.Node) bool {
				if is, ok := n.(*ast.IfStmt); ok {
					conds = append(conds, c01Src(p, is.Cond))
				}
				return true
			})
			ok := false
			for _, c := range conds {
				if c == "rb.index > 0 && rb.index <= applied" {
					ok = true
				}
			}
			return defBool("c01_read_release_guard", ok)
		}},
		// handleLeaderReadIndex: in the multi-voter branch the request is recorded
		// with r.log.committed, only after the hasCommittedEntryAtCurrentTerm test
		Fact{Name: "c01_leader_readindex_guard", Gen: func() string {
			p := loadPkg("internal/raft")
			fd := p.Func("raft", "handleLeaderReadIndex")
			src := c01Src(p, fd.Body)
			i := strings.Index(src, "if !r.hasCommittedEntryAtCurrentTerm() {")
			j := strings.Index(src, "r.readIndex.addRequest(r.log.committed, ctx, m.From)")
			k := strings.Index(src, "r.reportDroppedReadIndex(m) return nil }")
			// the unconfirmed shortcut is only taken by a single-voter shard
			q := strings.Index(src, "} else if !r.isSingleNodeQuorum() {")
			e := strings.Index(src, "} else { r.addReadyToRead(r.log.committed, ctx)")
			return defBool("c01_leader_readindex_guard", q >= 0 && i > q && k > i && j > k && e > j)
		}},
		// node.ApplyUpdate is the only caller of pendingProposal.applied and it
		// notifies reads with the applied entry index
		Fact{Name: "c01_apply_path_completion", Gen: func() string {
			p := root()
			fd := p.Func("node", "ApplyUpdate")
			src := c01Src(p, fd.Body)
			ok := strings.Contains(src, "n.pendingReadIndexes.applied(e.Index)") &&
				strings.Contains(src, "n.pendingProposals.applied(e.ClientID, e.SeriesID, e.Key, result, rejected)")
			callers := 0
			for name, f := range p.Files {
				_ = name
				ast.Inspect(f, func(n ast.Node) bool {
					if c, ok := n.(*ast.CallExpr); ok {
						if s := selString(c.Fun); strings.HasSuffix(s, "pendingProposals.applied") {
							callers++
						}
					}
					return true
				})
			}
			return defBool("c01_apply_path_completion", ok && callers == 1)
		}},
	)
	_ = fmt.Sprint
	register(u)
}
