package main

// C04 (tie G): the ORDER OF EFFECTS of the step pipeline, re-read from the
// source on every run:
//   - engine.processSteps (engine.go): the sequence of stages after the
//     stepNode loop (fast apply, per-update pre-save loop, SaveRaftState,
//     onSnapshotSaved, slow apply, per-update post-save loop)
//   - node.processRaftUpdate / commitRaftUpdate (node.go): what the post-save
//     loop does per update, in order
//   - node.sendMessages / sendReplicateMessages: which polarity of
//     isFreeOrderMessage each of them forwards
//   - engine.applySnapshotAndUpdate: the FastApply filter and the order
//     processSnapshot ; applyRaftUpdates
//   - engine.onSnapshotSaved: removes the flag file for non-empty snapshots
// Model/Engine.v interprets the generated stage list, so moving a call in the
// Go source changes the model and breaks (or re-establishes) the proofs.
// Any call the extractor does not know makes the fact MISSING (conservative).

import (
	"fmt"
	"go/ast"
	"go/token"
	"strings"
)

// calls that are known to have no Send/Persist/PushApply/Commit effect of their own
// (client notifications = C12, log compaction = C08/C09, snapshot requests = C08)
var c04Neutral = map[string]bool{
	"processReadyToRead": true, "processDroppedEntries": true, "processDroppedReadIndexes": true,
	"processLogQuery": true, "processLeaderUpdate": true, "processMoreCommittedEntries": true,
	"removeLog": true, "runSyncTask": true, "saveSnapshotRequired": true, "pushTakeSnapshotRequest": true,
}

func c04CallName(e ast.Expr) (string, *ast.CallExpr) {
	c, ok := e.(*ast.CallExpr)
	if !ok {
		return "", nil
	}
	switch f := c.Fun.(type) {
	case *ast.SelectorExpr:
		return f.Sel.Name, c
	case *ast.Ident:
		return f.Name, c
	}
	return "", nil
}

// c04StmtCalls lists the calls made by a statement of the simple shapes used in
// the pipeline: `f(x)`, `if err := f(x); err != nil {return err}`,
// `if cond(x) { g(y) }`, `mu.Lock()`.
func c04StmtCalls(st ast.Stmt) []*ast.CallExpr {
	var out []*ast.CallExpr
	add := func(e ast.Expr) {
		if _, c := c04CallName(e); c != nil {
			out = append(out, c)
		}
	}
	switch s := st.(type) {
	case *ast.ExprStmt:
		add(s.X)
	case *ast.IfStmt:
		if s.Init != nil {
			if as, ok := s.Init.(*ast.AssignStmt); ok && len(as.Rhs) == 1 {
				add(as.Rhs[0])
			}
		}
		ast.Inspect(s.Cond, func(n ast.Node) bool {
			if c, ok := n.(*ast.CallExpr); ok {
				out = append(out, c)
			}
			return true
		})
		for _, b := range s.Body.List {
			// error returns only, or nested calls
			if _, ok := b.(*ast.ReturnStmt); ok {
				continue
			}
			out = append(out, c04StmtCalls(b)...)
		}
	case *ast.AssignStmt:
		for _, r := range s.Rhs {
			add(r)
		}
	case *ast.ReturnStmt:
	default:
		panic(fmt.Sprintf("unexpected statement shape %T", st))
	}
	return out
}

// per-update actions of node.processRaftUpdate, in order
func c04ProcessRaftUpdateActs(p *Pkg) []string {
	fn := p.Func("node", "processRaftUpdate")
	var acts []string
	for _, st := range fn.Body.List {
		for _, c := range c04StmtCalls(st) {
			name, _ := c04CallName(c)
			switch {
			case name == "Append":
				// n.logReader.Append(ud.EntriesToSave)
				if len(c.Args) != 1 || !strings.HasSuffix(c04ExprString(c.Args[0]), ".EntriesToSave") {
					panic("processRaftUpdate: Append of something other than ud.EntriesToSave")
				}
				acts = append(acts, "UaLogAppend")
			case name == "sendMessages":
				acts = append(acts, "UaSendRest")
			case name == "sendReplicateMessages":
				acts = append(acts, "UaSendFree")
			case c04Neutral[name]:
			default:
				panic("processRaftUpdate: unknown call " + name)
			}
		}
	}
	return acts
}

func c04ExprString(e ast.Expr) string {
	switch x := e.(type) {
	case *ast.Ident:
		return x.Name
	case *ast.SelectorExpr:
		return c04ExprString(x.X) + "." + x.Sel.Name
	case *ast.CallExpr:
		return c04ExprString(x.Fun) + "(...)"
	case *ast.UnaryExpr:
		return x.Op.String() + c04ExprString(x.X)
	case *ast.BasicLit:
		return x.Value
	}
	return fmt.Sprintf("<%T>", e)
}

func c04CommitActs(p *Pkg) []string {
	fn := p.Func("node", "commitRaftUpdate")
	found := false
	for _, st := range fn.Body.List {
		for _, c := range c04StmtCalls(st) {
			name, _ := c04CallName(c)
			switch name {
			case "Commit":
				found = true
			case "Lock", "Unlock":
			default:
				panic("commitRaftUpdate: unknown call " + name)
			}
		}
	}
	if !found {
		panic("commitRaftUpdate: no Peer.Commit call")
	}
	return []string{"UaCommitBack"}
}

func c04Stages(p *Pkg) []string {
	fn := p.Func("engine", "processSteps")
	var stages []string
	seenStep := false
	for _, st := range fn.Body.List {
		switch s := st.(type) {
		case *ast.RangeStmt:
			over := c04ExprString(s.X)
			if over == "active" {
				// the stepNode loop: must contain node.stepNode and nothing with an effect
				ok := false
				ast.Inspect(s.Body, func(n ast.Node) bool {
					if c, isC := n.(*ast.CallExpr); isC {
						name, _ := c04CallName(c)
						switch name {
						case "stepNode":
							ok = true
						case "stopped", "append":
						default:
							panic("processSteps: unknown call in the stepNode loop: " + name)
						}
					}
					return true
				})
				if !ok {
					panic("processSteps: range over active without stepNode")
				}
				if seenStep {
					panic("processSteps: two stepNode loops")
				}
				seenStep = true
				stages = append(stages, "SgStepNodes")
				continue
			}
			if over == "nodes" && !seenStep {
				continue // `for cid := range nodes { active[cid] = ... }` lives inside an if; not reached here
			}
			if over != "nodeUpdates" {
				panic("processSteps: range over " + over)
			}
			var acts []string
			for _, b := range s.Body.List {
				if as, ok := b.(*ast.AssignStmt); ok && len(as.Rhs) == 1 {
					if _, isIdx := as.Rhs[0].(*ast.IndexExpr); isIdx {
						continue // node := nodes[ud.ShardID]
					}
				}
				for _, c := range c04StmtCalls(b) {
					name, _ := c04CallName(c)
					switch {
					case name == "sendReplicateMessages":
						acts = append(acts, "UaSendFree")
					case name == "sendMessages":
						acts = append(acts, "UaSendRest")
					case name == "processRaftUpdate":
						acts = append(acts, c04ProcessRaftUpdateActs(p)...)
					case name == "commitRaftUpdate":
						acts = append(acts, c04CommitActs(p)...)
					case c04Neutral[name]:
					default:
						panic("processSteps: unknown per-update call " + name)
					}
				}
			}
			stages = append(stages, "SgEach ["+strings.Join(acts, "; ")+"]")
		case *ast.IfStmt:
			if be, ok := s.Cond.(*ast.BinaryExpr); ok && s.Init == nil && strings.HasPrefix(c04ExprString(be.X), "len(") {
				// guards `if len(nodes) == 0 { return nil }`, `if len(active) == 0 { fill active }`
				ast.Inspect(s.Body, func(n ast.Node) bool {
					if c, isC := n.(*ast.CallExpr); isC {
						name, _ := c04CallName(c)
						panic("processSteps: call inside a length guard: " + name)
					}
					return true
				})
				continue
			}
			calls := c04StmtCalls(s)
			for _, c := range calls {
				name, _ := c04CallName(c)
				switch name {
				case "len":
				case "resetNodeUpdate":
					// after everything else; only clears slices that were handed over already
					stages = append(stages, "SgReset")
				case "applySnapshotAndUpdate":
					if len(c.Args) != 3 {
						panic("applySnapshotAndUpdate: arity")
					}
					b := c04ExprString(c.Args[2])
					if b != "true" && b != "false" {
						panic("applySnapshotAndUpdate: non literal fastApply argument")
					}
					stages = append(stages, "SgApply "+b)
				case "SaveRaftState":
					if c04ExprString(c.Args[0]) != "nodeUpdates" {
						panic("SaveRaftState: unexpected argument")
					}
					stages = append(stages, "SgSave")
				case "onSnapshotSaved":
					stages = append(stages, "SgSnapshotSaved")
				default:
					panic("processSteps: unknown call " + name)
				}
			}
		case *ast.AssignStmt:
			// nodeUpdates = nodeUpdates[:0]
			if len(s.Rhs) == 1 {
				if _, ok := s.Rhs[0].(*ast.SliceExpr); ok {
					continue
				}
			}
			panic("processSteps: unexpected assignment")
		case *ast.ReturnStmt:
		default:
			panic(fmt.Sprintf("processSteps: unexpected statement %T", st))
		}
	}
	if !seenStep {
		panic("processSteps: stepNode loop not found")
	}
	return stages
}

// c04SendFilter returns "free" or "negb free": the condition under which the
// function forwards a message, as a function of isFreeOrderMessage(msg).
func c04SendFilter(p *Pkg, name string, over string) string {
	fn := p.Func("node", name)
	if len(fn.Body.List) != 1 {
		panic(name + ": body is not a single loop")
	}
	rs, ok := fn.Body.List[0].(*ast.RangeStmt)
	if !ok || c04ExprString(rs.X) != over {
		panic(name + ": body is not a loop over " + over)
	}
	if len(rs.Body.List) != 1 {
		panic(name + ": loop body is not a single if")
	}
	is, ok := rs.Body.List[0].(*ast.IfStmt)
	if !ok || is.Else != nil || is.Init != nil {
		panic(name + ": loop body is not a single if")
	}
	sends := false
	for _, b := range is.Body.List {
		if es, ok := b.(*ast.ExprStmt); ok {
			if n, _ := c04CallName(es.X); n == "sendRaftMessage" {
				sends = true
			}
		}
	}
	if !sends {
		panic(name + ": no sendRaftMessage in the if body")
	}
	cond := is.Cond
	neg := false
	if u, ok := cond.(*ast.UnaryExpr); ok && u.Op == token.NOT {
		neg = true
		cond = u.X
	}
	if n, c := c04CallName(cond); c == nil || n != "isFreeOrderMessage" {
		panic(name + ": condition is not [!]isFreeOrderMessage(msg)")
	}
	if neg {
		return "negb free"
	}
	return "free"
}

func c04ApplyActs(p *Pkg) string {
	fn := p.Func("engine", "applySnapshotAndUpdate")
	var rs *ast.RangeStmt
	for _, st := range fn.Body.List {
		if r, ok := st.(*ast.RangeStmt); ok {
			if rs != nil {
				panic("applySnapshotAndUpdate: two loops")
			}
			rs = r
		}
	}
	if rs == nil || c04ExprString(rs.X) != "updates" {
		panic("applySnapshotAndUpdate: no loop over updates")
	}
	filter := ""
	var acts []string
	for _, b := range rs.Body.List {
		if is, ok := b.(*ast.IfStmt); ok {
			if be, ok := is.Cond.(*ast.BinaryExpr); ok && len(is.Body.List) == 1 {
				if br, ok := is.Body.List[0].(*ast.BranchStmt); ok && br.Tok == token.CONTINUE {
					l, r := c04ExprString(be.X), c04ExprString(be.Y)
					if be.Op == token.NEQ && strings.HasSuffix(l, ".FastApply") && r == "fastApply" {
						if len(acts) > 0 {
							panic("applySnapshotAndUpdate: filter after an action")
						}
						filter = "eqb"
						continue
					}
					panic("applySnapshotAndUpdate: unknown skip condition")
				}
			}
		}
		if as, ok := b.(*ast.AssignStmt); ok && len(as.Rhs) == 1 {
			if _, isIdx := as.Rhs[0].(*ast.IndexExpr); isIdx {
				continue
			}
		}
		if is, ok := b.(*ast.IfStmt); ok && is.Init == nil {
			// if node.notifyCommit { notifyCommit = true }
			if c04ExprString(is.Cond) == "node.notifyCommit" {
				continue
			}
		}
		for _, c := range c04StmtCalls(b) {
			name, _ := c04CallName(c)
			switch name {
			case "processSnapshot":
				acts = append(acts, "AaPushSnapshot")
			case "applyRaftUpdates":
				acts = append(acts, "AaPushEntries")
			default:
				panic("applySnapshotAndUpdate: unknown call " + name)
			}
		}
	}
	if filter != "eqb" {
		panic("applySnapshotAndUpdate: `if ud.FastApply != fastApply { continue }` not found")
	}
	return "[" + strings.Join(acts, "; ") + "]"
}

// c04SyncFields parses tan's `func stateSyncChange(a, b pb.State) bool { return a.X != b.X || ... }`
func c04SyncFields(p *Pkg) []string {
	fn := p.Func("", "stateSyncChange")
	if len(fn.Body.List) != 1 {
		panic("stateSyncChange: body is not a single return")
	}
	ret, ok := fn.Body.List[0].(*ast.ReturnStmt)
	if !ok || len(ret.Results) != 1 {
		panic("stateSyncChange: body is not a single return")
	}
	var fields []string
	var walk func(e ast.Expr)
	walk = func(e ast.Expr) {
		switch x := e.(type) {
		case *ast.ParenExpr:
			walk(x.X)
		case *ast.BinaryExpr:
			if x.Op == token.LOR {
				walk(x.X)
				walk(x.Y)
				return
			}
			l, lok := x.X.(*ast.SelectorExpr)
			r, rok := x.Y.(*ast.SelectorExpr)
			if x.Op == token.NEQ && lok && rok && l.Sel.Name == r.Sel.Name &&
				c04ExprString(l.X) != c04ExprString(r.X) {
				switch l.Sel.Name {
				case "Term", "Vote", "Commit":
					fields = append(fields, "Sf"+l.Sel.Name)
					return
				}
			}
			panic("stateSyncChange: unexpected comparison")
		default:
			panic("stateSyncChange: unexpected expression")
		}
	}
	walk(ret.Results[0])
	return fields
}

// c04TanSyncDisjuncts parses, in tan's db.write, `sync := A || B || C` and names the disjuncts
func c04TanSyncDisjuncts(p *Pkg) map[string]bool {
	fn := p.Func("db", "write")
	out := map[string]bool{}
	found := false
	ast.Inspect(fn.Body, func(n ast.Node) bool {
		as, ok := n.(*ast.AssignStmt)
		if !ok || len(as.Lhs) != 1 || len(as.Rhs) != 1 || c04ExprString(as.Lhs[0]) != "sync" {
			return true
		}
		found = true
		var walk func(e ast.Expr)
		walk = func(e ast.Expr) {
			switch x := e.(type) {
			case *ast.ParenExpr:
				walk(x.X)
				return
			case *ast.BinaryExpr:
				if x.Op == token.LOR {
					walk(x.X)
					walk(x.Y)
					return
				}
				if x.Op == token.GTR && c04ExprString(x.X) == "len(...)" && c04ExprString(x.Y) == "0" {
					if c, ok := x.X.(*ast.CallExpr); ok && len(c.Args) == 1 && strings.HasSuffix(c04ExprString(c.Args[0]), ".EntriesToSave") {
						out["entries"] = true
						return
					}
				}
			case *ast.UnaryExpr:
				if x.Op == token.NOT {
					if name, c := c04CallName(x.X); c != nil && name == "IsEmptySnapshot" {
						out["snapshot"] = true
						return
					}
				}
			case *ast.CallExpr:
				if name, _ := c04CallName(x); name == "stateSyncChange" && len(x.Args) == 2 &&
					strings.HasSuffix(c04ExprString(x.Args[0]), ".State") {
					out["state"] = true
					return
				}
			}
			panic("tan db.write: unknown disjunct in the sync condition")
		}
		walk(as.Rhs[0])
		return false
	})
	if !found {
		panic("tan db.write: `sync := ...` not found")
	}
	return out
}

// every pebble.WriteOptions literal of the Pebble KV store and its Sync field
func c04PebbleSync(p *Pkg) bool {
	n := 0
	all := true
	for _, f := range p.Files {
		ast.Inspect(f, func(nd ast.Node) bool {
			cl, ok := nd.(*ast.CompositeLit)
			if !ok || !strings.HasSuffix(c04ExprString(cl.Type), "WriteOptions") {
				return true
			}
			n++
			sync := false
			for _, el := range cl.Elts {
				if kv, ok := el.(*ast.KeyValueExpr); ok && c04ExprString(kv.Key) == "Sync" && c04ExprString(kv.Value) == "true" {
					sync = true
				}
			}
			if !sync {
				all = false
			}
			return true
		})
	}
	if n == 0 {
		panic("kv_pebble: no pebble.WriteOptions literal found")
	}
	return all
}

// c04SaveLoop inspects the `for ... range updates` loop of a tan SaveRaftState variant:
// how is the fsync decision returned by db.write carried to the fsync?
//   "or":   sync, err := db.write(..); if sync { flag = true }   (or flag = flag || sync)
//   "last": flag, err = db.write(..)                              (last update decides)
//   "each": sync, err := db.write(..); if sync { ... db.sync() ... } inside the loop
func c04SaveLoop(p *Pkg, fname string) (shape string, flagVar string) {
	fn := p.Func("LogDB", fname)
	var loop *ast.RangeStmt
	for _, st := range fn.Body.List {
		if r, ok := st.(*ast.RangeStmt); ok && c04ExprString(r.X) == "updates" {
			if loop != nil {
				panic(fname + ": two loops over updates")
			}
			loop = r
		}
	}
	if loop == nil {
		panic(fname + ": no loop over updates")
	}
	writeVar := ""
	writeDefines := false
	for _, st := range loop.Body.List {
		as, ok := st.(*ast.AssignStmt)
		if !ok || len(as.Rhs) != 1 {
			continue
		}
		if name, c := c04CallName(as.Rhs[0]); c != nil && name == "write" {
			if writeVar != "" {
				panic(fname + ": two db.write calls")
			}
			writeVar = c04ExprString(as.Lhs[0])
			writeDefines = as.Tok == token.DEFINE
		}
	}
	if writeVar == "" {
		panic(fname + ": db.write call not found in the loop")
	}
	if !writeDefines {
		// assigned straight to an outer variable: the last update decides
		return "last", writeVar
	}
	for _, st := range loop.Body.List {
		switch x := st.(type) {
		case *ast.IfStmt:
			if c04ExprString(x.Cond) != writeVar {
				continue
			}
			for _, b := range x.Body.List {
				if as, ok := b.(*ast.AssignStmt); ok && len(as.Rhs) == 1 && c04ExprString(as.Rhs[0]) == "true" {
					return "or", c04ExprString(as.Lhs[0])
				}
			}
			syncs := false
			ast.Inspect(x.Body, func(n ast.Node) bool {
				if c, ok := n.(*ast.CallExpr); ok {
					if name, _ := c04CallName(c); name == "sync" {
						syncs = true
					}
				}
				return true
			})
			if syncs {
				// when the fsync runs in a goroutine, SaveRaftState must wait for it after the loop
				async := false
				ast.Inspect(x.Body, func(n ast.Node) bool {
					if _, ok := n.(*ast.GoStmt); ok {
						async = true
					}
					return true
				})
				if async {
					waits := false
					after := false
					for _, st2 := range fn.Body.List {
						if st2 == ast.Stmt(loop) {
							after = true
							continue
						}
						if !after {
							continue
						}
						ast.Inspect(st2, func(n ast.Node) bool {
							if c, ok := n.(*ast.CallExpr); ok {
								if name, _ := c04CallName(c); name == "Wait" {
									waits = true
								}
							}
							return true
						})
					}
					if !waits {
						return "each-unwaited", ""
					}
				}
				return "each", ""
			}
		case *ast.AssignStmt:
			if len(x.Rhs) == 1 {
				if be, ok := x.Rhs[0].(*ast.BinaryExpr); ok && be.Op == token.LOR {
					l, r := c04ExprString(be.X), c04ExprString(be.Y)
					lhs := c04ExprString(x.Lhs[0])
					if (l == lhs && r == writeVar) || (r == lhs && l == writeVar) {
						return "or", lhs
					}
				}
			}
		}
	}
	panic(fname + ": the fsync decision of db.write is not used in a known way")
}

// after the loop: `if flag && ... { selected.sync() }`
func c04SyncAfterLoop(p *Pkg, fname, flag string) bool {
	fn := p.Func("LogDB", fname)
	seenLoop := false
	for _, st := range fn.Body.List {
		if _, ok := st.(*ast.RangeStmt); ok {
			seenLoop = true
			continue
		}
		is, ok := st.(*ast.IfStmt)
		if !ok || !seenLoop {
			continue
		}
		uses := false
		ast.Inspect(is.Cond, func(n ast.Node) bool {
			if id, ok := n.(*ast.Ident); ok && id.Name == flag {
				uses = true
			}
			return true
		})
		if !uses {
			continue
		}
		syncs := false
		ast.Inspect(is, func(n ast.Node) bool {
			if c, ok := n.(*ast.CallExpr); ok {
				if name, _ := c04CallName(c); name == "sync" {
					syncs = true
				}
			}
			return true
		})
		return syncs
	}
	return false
}

// the deferred epilogue of tan's rebuildLog, in execution order
func c04RebuildSteps(p *Pkg) []string {
	fn := p.Func("db", "rebuildLog")
	for _, st := range fn.Body.List {
		d, ok := st.(*ast.DeferStmt)
		if !ok {
			continue
		}
		fl, ok := d.Call.Fun.(*ast.FuncLit)
		if !ok {
			continue
		}
		var steps []string
		for _, b := range fl.Body.List {
			for _, c := range c04StmtCalls(b) {
				name, _ := c04CallName(c)
				if name != "firstError" || len(c.Args) != 2 {
					panic("rebuildLog: unexpected call in the deferred epilogue: " + name)
				}
				inner := c04ExprString(c.Args[1])
				switch {
				case inner == "f.Sync(...)":
					steps = append(steps, "RsSyncFile")
				case inner == "f.Close(...)":
					steps = append(steps, "RsCloseFile")
				case strings.HasSuffix(inner, ".Rename(...)"):
					steps = append(steps, "RsRename")
				case strings.HasSuffix(inner, "dataDir.Sync(...)"):
					steps = append(steps, "RsSyncDir")
				default:
					panic("rebuildLog: unknown step " + inner)
				}
			}
		}
		return steps // the first defer (runs last): file sync / close / rename / dir sync
	}
	panic("rebuildLog: deferred epilogue not found")
}

// c04ReplayGuards lists, for node.replayLog, the early returns between the call of
// ReadRaftState and the hand-over of what it returned to the LogReader (SetState / SetRange).
// Known guards: the store holds nothing for this replica (ErrNoSavedLog), a read error.
// Any other return on that stretch makes the fact MISSING.
func c04ReplayGuards(p *Pkg) []string {
	fn := p.Func("node", "replayLog")
	started := false
	handedState, handedRange := false, false
	var guards []string
	mentions := func(e ast.Expr, name string) bool {
		found := false
		ast.Inspect(e, func(n ast.Node) bool {
			switch x := n.(type) {
			case *ast.Ident:
				if x.Name == name {
					found = true
				}
			case *ast.SelectorExpr:
				if x.Sel.Name == name {
					found = true
				}
			}
			return true
		})
		return found
	}
	hasReturn := func(b *ast.BlockStmt) bool {
		r := false
		ast.Inspect(b, func(n ast.Node) bool {
			if _, ok := n.(*ast.ReturnStmt); ok {
				r = true
			}
			return true
		})
		return r
	}
	for _, st := range fn.Body.List {
		if !started {
			if as, ok := st.(*ast.AssignStmt); ok && len(as.Rhs) == 1 {
				if name, c := c04CallName(as.Rhs[0]); c != nil && name == "ReadRaftState" {
					started = true
				}
			}
			continue
		}
		switch x := st.(type) {
		case *ast.IfStmt:
			if hasReturn(x.Body) || (x.Else != nil) {
				if handedRange {
					continue
				}
				if x.Init != nil || x.Else != nil {
					panic("replayLog: unexpected if shape after ReadRaftState")
				}
				switch {
				case mentions(x.Cond, "ErrNoSavedLog") && mentions(x.Cond, "err"):
					guards = append(guards, "RgNoSavedLog")
				case c04ExprString(x.Cond) == "<*ast.BinaryExpr>" && mentions(x.Cond, "err") && mentions(x.Cond, "nil") &&
					!mentions(x.Cond, "rs") && !mentions(x.Cond, "ss"):
					guards = append(guards, "RgReadError")
				default:
					// a way out that hands nothing to the LogReader: the model treats it as
					// "may start from nothing" and the restart theorem no longer holds
					guards = append(guards, "RgUnknownReturn")
				}
				continue
			}
			// `if hasRaftState { ... SetState(rs.State) }`
			ast.Inspect(x.Body, func(n ast.Node) bool {
				if c, ok := n.(*ast.CallExpr); ok {
					if name, _ := c04CallName(c); name == "SetState" {
						handedState = true
					}
				}
				return true
			})
		case *ast.ExprStmt:
			if name, c := c04CallName(x.X); c != nil && name == "SetRange" {
				handedRange = true
			}
		case *ast.ReturnStmt:
			if !handedRange || !handedState {
				panic("replayLog: returns before SetState/SetRange")
			}
		case *ast.AssignStmt:
		default:
			panic(fmt.Sprintf("replayLog: unexpected statement %T after ReadRaftState", st))
		}
	}
	if !started || !handedState || !handedRange {
		panic("replayLog: ReadRaftState / SetState / SetRange not found")
	}
	return guards
}

// c04FileInUse: which records of a node keep a tan log file alive (nodeIndex.fileInUse)
func c04FileInUse(p *Pkg) []string {
	fn := p.Func("nodeIndex", "fileInUse")
	var out []string
	seen := map[string]bool{}
	add := func(x string) {
		if !seen[x] {
			seen[x] = true
			out = append(out, x)
		}
	}
	ast.Inspect(fn.Body, func(n ast.Node) bool {
		be, ok := n.(*ast.BinaryExpr)
		if !ok || be.Op != token.EQL {
			return true
		}
		l := c04ExprString(be.X)
		switch {
		case strings.HasSuffix(l, ".snapshot.fileNum"):
			add("FuSnapshot")
		case strings.HasSuffix(l, ".state.fileNum"):
			add("FuState")
		case l == "ie.fileNum":
			add("FuEntries")
		}
		return true
	})
	return out
}

// c04DoSaveSteps: node.doSave, the order of: sm.Save, snapshotter.Commit, the return for an
// exported snapshot, logReader.CreateSnapshot (the snapshot is recorded for this replica),
// compactLog (log compaction scheduled), ss.setIndex
func c04DoSaveSteps(p *Pkg) []string {
	fn := p.Func("node", "doSave")
	var steps []string
	for _, st := range fn.Body.List {
		if is, ok := st.(*ast.IfStmt); ok && is.Init == nil {
			if name, c := c04CallName(is.Cond); c != nil && name == "Exported" {
				ret := false
				for _, b := range is.Body.List {
					if _, ok := b.(*ast.ReturnStmt); ok {
						ret = true
					}
				}
				if ret {
					steps = append(steps, "SsExportedReturn")
					continue
				}
			}
		}
		var calls []*ast.CallExpr
		switch x := st.(type) {
		case *ast.IfStmt:
			if x.Init != nil {
				if as, ok := x.Init.(*ast.AssignStmt); ok && len(as.Rhs) == 1 {
					if _, c := c04CallName(as.Rhs[0]); c != nil {
						calls = append(calls, c)
					}
				}
			}
		case *ast.AssignStmt:
			for _, r := range x.Rhs {
				if _, c := c04CallName(r); c != nil {
					calls = append(calls, c)
				}
			}
		case *ast.ExprStmt:
			if _, c := c04CallName(x.X); c != nil {
				calls = append(calls, c)
			}
		}
		for _, c := range calls {
			name, _ := c04CallName(c)
			switch name {
			case "Save":
				steps = append(steps, "SsSave")
			case "Commit":
				steps = append(steps, "SsCommit")
			case "CreateSnapshot":
				steps = append(steps, "SsRecord")
			case "compactLog":
				steps = append(steps, "SsCompactLog")
			case "setIndex":
				steps = append(steps, "SsSetIndex")
			}
		}
	}
	return steps
}

// c04RsmSyncGuards: rsm.StateMachine.sync(): the returns that precede the call of the user
// state machine's Sync() (s.sm.Sync()). Known: the replica is not an on-disk state machine.
func c04RsmSyncGuards(p *Pkg) []string {
	fn := p.Func("StateMachine", "sync")
	var guards []string
	for _, st := range fn.Body.List {
		callsSync := false
		ast.Inspect(st, func(n ast.Node) bool {
			if c, ok := n.(*ast.CallExpr); ok {
				if c04ExprString(c.Fun) == "s.sm.Sync" {
					callsSync = true
				}
			}
			return true
		})
		if callsSync {
			return guards
		}
		is, ok := st.(*ast.IfStmt)
		if !ok {
			continue
		}
		ret := false
		ast.Inspect(is.Body, func(n ast.Node) bool {
			if _, ok := n.(*ast.ReturnStmt); ok {
				ret = true
			}
			return true
		})
		if !ret {
			continue
		}
		if c04ExprString(is.Cond) == "!s.OnDiskStateMachine(...)" {
			guards = append(guards, "SgNotOnDisk")
		} else {
			guards = append(guards, "SgUnknown")
		}
	}
	panic("StateMachine.sync: s.sm.Sync() call not found")
}

// c04ConcurrentSaveSteps: rsm.StateMachine.concurrentSave: prepare / sync / doSave order
func c04ConcurrentSaveSteps(p *Pkg) []string {
	fn := p.Func("StateMachine", "concurrentSave")
	var steps []string
	ast.Inspect(fn.Body, func(n ast.Node) bool {
		if c, ok := n.(*ast.CallExpr); ok {
			switch c04ExprString(c.Fun) {
			case "s.prepare":
				steps = append(steps, "CsPrepare")
			case "s.sync":
				steps = append(steps, "CsSync")
			case "s.doSave":
				steps = append(steps, "CsDoSave")
			}
		}
		return true
	})
	return steps
}

func init() {
	register(&Unit{Name: "C04", Imports: "From Coq Require Import Bool.", Facts: []Fact{
		{Name: "stage vocabulary", Gen: func() string {
			return "Inductive uact := UaSendFree | UaSendRest | UaLogAppend | UaCommitBack.\n" +
				"Inductive aact := AaPushSnapshot | AaPushEntries.\n" +
				"Inductive stage := SgStepNodes | SgApply (fast : bool) | SgEach (acts : list uact) | SgSave | SgSnapshotSaved | SgReset.\n"
		}},
		{Name: "engine.processSteps stage order", Gen: func() string {
			st := c04Stages(loadPkg("."))
			return "Definition process_steps_stages : list stage :=\n  [" + strings.Join(st, ";\n   ") + "].\n"
		}},
		{Name: "applySnapshotAndUpdate actions", Gen: func() string {
			return "Definition apply_stage_acts : list aact := " + c04ApplyActs(loadPkg(".")) + ".\n"
		}},
		{Name: "sendReplicateMessages filter", Gen: func() string {
			return "Definition send_replicate_selects (free : bool) : bool := " + c04SendFilter(loadPkg("."), "sendReplicateMessages", "ud.Messages") + ".\n"
		}},
		{Name: "sendMessages filter", Gen: func() string {
			return "Definition send_messages_selects (free : bool) : bool := " + c04SendFilter(loadPkg("."), "sendMessages", "msgs") + ".\n"
		}},
		{Name: "onSnapshotSaved", Gen: func() string {
			// for non-empty ud.Snapshot: node.removeSnapshotFlagFile(ud.Snapshot.Index)
			fn := loadPkg(".").Func("engine", "onSnapshotSaved")
			ok := false
			ast.Inspect(fn.Body, func(n ast.Node) bool {
				if c, isC := n.(*ast.CallExpr); isC {
					if name, _ := c04CallName(c); name == "removeSnapshotFlagFile" {
						ok = true
					}
				}
				return true
			})
			return defBool("snapshot_saved_removes_flag", ok)
		}},
		{Name: "state fields vocabulary", Gen: func() string {
			return "Inductive sfield := SfTerm | SfVote | SfCommit.\n"
		}},
		// internal/tan/db.go: which State fields, when they differ from the last written
		// State, make db.write ask for an fsync
		{Name: "tan stateSyncChange fields", Gen: func() string {
			return "Definition tan_sync_fields : list sfield := [" + strings.Join(c04SyncFields(loadPkg("internal/tan")), "; ") + "].\n"
		}},
		{Name: "tan db.write sync condition", Gen: func() string {
			d := c04TanSyncDisjuncts(loadPkg("internal/tan"))
			return defBool("tan_sync_on_snapshot", d["snapshot"]) + defBool("tan_sync_on_entries", d["entries"]) +
				defBool("tan_sync_on_state_change", d["state"])
		}},
		// internal/tan/logdb.go: how SaveRaftState carries db.write's fsync decision over a
		// batch of updates (multiplexed logs: one fsync after the loop; regular: per update)
		{Name: "tan SaveRaftState batch shapes", Gen: func() string {
			p := loadPkg("internal/tan")
			shape, flag := c04SaveLoop(p, "concurrentSaveState")
			if shape == "each" {
				panic("concurrentSaveState: per-update fsync (model expects one fsync after the loop)")
			}
			after := c04SyncAfterLoop(p, "concurrentSaveState", flag)
			seq, _ := c04SaveLoop(p, "sequentialSaveState")
			return defBool("tan_mux_sync_accumulates", shape == "or") + defBool("tan_mux_sync_after_batch", after) +
				defBool("tan_seq_sync_each", seq == "each")
		}},
		{Name: "tan rebuildLog epilogue", Gen: func() string {
			return "Inductive rstep := RsSyncFile | RsCloseFile | RsRename | RsSyncDir.\n" +
				"Definition tan_rebuild_log_steps : list rstep := [" + strings.Join(c04RebuildSteps(loadPkg("internal/tan")), "; ") + "].\n"
		}},
		// node.go replayLog: the only ways out between ReadRaftState and SetState/SetRange
		{Name: "replayLog guards", Gen: func() string {
			return "Inductive rguard := RgNoSavedLog | RgReadError | RgUnknownReturn.\n" +
				"Definition replay_log_guards : list rguard := [" + strings.Join(c04ReplayGuards(loadPkg(".")), "; ") + "].\n"
		}},
		// internal/tan/index.go nodeIndex.fileInUse: the records that keep a log file alive
		{Name: "tan fileInUse", Gen: func() string {
			return "Inductive fuse := FuSnapshot | FuState | FuEntries.\n" +
				"Definition tan_file_in_use_fields : list fuse := [" + strings.Join(c04FileInUse(loadPkg("internal/tan")), "; ") + "].\n"
		}},
		// node.go doSave: step order
		{Name: "doSave steps", Gen: func() string {
			return "Inductive sstep := SsSave | SsCommit | SsExportedReturn | SsRecord | SsCompactLog | SsSetIndex.\n" +
				"Definition do_save_steps : list sstep := [" + strings.Join(c04DoSaveSteps(loadPkg(".")), "; ") + "].\n"
		}},
		// internal/rsm/statemachine.go: sync() and concurrentSave() of an on-disk state machine
		{Name: "rsm sync / concurrentSave", Gen: func() string {
			p := loadPkg("internal/rsm")
			return "Inductive sguard := SgNotOnDisk | SgUnknown.\n" +
				"Definition rsm_sync_guards : list sguard := [" + strings.Join(c04RsmSyncGuards(p), "; ") + "].\n" +
				"Inductive csstep := CsPrepare | CsSync | CsDoSave.\n" +
				"Definition rsm_concurrent_save_steps : list csstep := [" + strings.Join(c04ConcurrentSaveSteps(p), "; ") + "].\n"
		}},
		// internal/logdb/kv/pebble: every write batch is committed with Sync: true
		{Name: "pebble write options", Gen: func() string {
			return defBool("pebble_write_sync", c04PebbleSync(loadPkg("internal/logdb/kv/pebble")))
		}},
	}})
}
