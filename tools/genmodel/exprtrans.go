package main

// A small translator from Go expressions to Coq for the pure decision
// predicates of the raft core (functions whose body is a single `return <expr>`, or
// whose last statement is). The free atoms of the expression (field reads, method
// calls without arguments, len(x)) become the parameters of the generated Coq
// function, in alphabetical order; integer atoms have type N, atoms used in boolean
// position have type bool. A source change that alters the expression changes the
// generated definition (and so re-opens every proof that unfolds it); a change that
// makes it read another field changes the arity and the model no longer type-checks.

import (
	"fmt"
	"go/ast"
	"go/token"
	"sort"
	"strings"
)

type exprCtx struct {
	p     *Pkg
	atoms map[string]string // coq name -> type ("N" | "bool")
	enums map[string]string // Go constant name -> Coq constant (mt_X, et_X, cc_X)
}

func atomName(e ast.Expr) string {
	switch x := e.(type) {
	case *ast.Ident:
		return x.Name
	case *ast.SelectorExpr:
		return atomName(x.X) + "_" + x.Sel.Name
	case *ast.CallExpr:
		if id, ok := x.Fun.(*ast.Ident); ok && id.Name == "len" && len(x.Args) == 1 {
			return "len_" + atomName(x.Args[0])
		}
		if len(x.Args) == 0 {
			return atomName(x.Fun)
		}
	}
	panic("unsupported atom")
}

func (c *exprCtx) atom(e ast.Expr, typ string) string {
	n := atomName(e)
	if old, ok := c.atoms[n]; ok && old != typ {
		panic(fmt.Sprintf("atom %s used both as %s and %s", n, old, typ))
	}
	c.atoms[n] = typ
	return n
}

// tr translates e expecting type want ("N" or "bool").
func (c *exprCtx) tr(e ast.Expr, want string) string {
	switch x := e.(type) {
	case *ast.ParenExpr:
		return c.tr(x.X, want)
	case *ast.BasicLit:
		return c.p.Eval(x, 0).String()
	case *ast.Ident:
		if x.Name == "true" || x.Name == "false" {
			return x.Name
		}
		// a package constant?
		if v, ok := func() (s string, ok bool) {
			defer func() {
				if recover() != nil {
					ok = false
				}
			}()
			return c.p.Const(x.Name).String(), true
		}(); ok {
			return v
		}
		return c.atom(x, want)
	case *ast.SelectorExpr:
		if id, ok := x.X.(*ast.Ident); ok && (id.Name == "pb" || id.Name == "raftpb") {
			if cn, ok := c.enums[x.Sel.Name]; ok {
				return cn
			}
			panic("unknown pb constant " + x.Sel.Name)
		}
		return c.atom(x, want)
	case *ast.CallExpr:
		if id, ok := x.Fun.(*ast.Ident); ok && len(x.Args) == 1 && id.Name != "len" {
			// conversion such as uint64(x)
			return c.tr(x.Args[0], want)
		}
		return c.atom(x, want)
	case *ast.UnaryExpr:
		if x.Op == token.NOT {
			return "negb (" + c.tr(x.X, "bool") + ")"
		}
	case *ast.BinaryExpr:
		switch x.Op {
		case token.LAND:
			return "(" + c.tr(x.X, "bool") + " && " + c.tr(x.Y, "bool") + ")"
		case token.LOR:
			return "(" + c.tr(x.X, "bool") + " || " + c.tr(x.Y, "bool") + ")"
		case token.EQL:
			return "(" + c.tr(x.X, "N") + " =? " + c.tr(x.Y, "N") + ")"
		case token.NEQ:
			return "negb (" + c.tr(x.X, "N") + " =? " + c.tr(x.Y, "N") + ")"
		case token.LSS:
			return "(" + c.tr(x.X, "N") + " <? " + c.tr(x.Y, "N") + ")"
		case token.LEQ:
			return "(" + c.tr(x.X, "N") + " <=? " + c.tr(x.Y, "N") + ")"
		case token.GTR:
			return "(" + c.tr(x.Y, "N") + " <? " + c.tr(x.X, "N") + ")"
		case token.GEQ:
			return "(" + c.tr(x.Y, "N") + " <=? " + c.tr(x.X, "N") + ")"
		case token.ADD:
			return "(" + c.tr(x.X, "N") + " + " + c.tr(x.Y, "N") + ")"
		case token.SUB:
			return "(" + c.tr(x.X, "N") + " - " + c.tr(x.Y, "N") + ")"
		case token.MUL:
			return "(" + c.tr(x.X, "N") + " * " + c.tr(x.Y, "N") + ")"
		case token.QUO:
			return "(" + c.tr(x.X, "N") + " / " + c.tr(x.Y, "N") + ")"
		case token.REM:
			return "(" + c.tr(x.X, "N") + " mod " + c.tr(x.Y, "N") + ")"
		}
	}
	panic(fmt.Sprintf("unsupported expression at %s", c.p.Fset.Position(e.Pos())))
}

// predFact generates `Definition <coq> (<atoms>) : <typ> := <expr>.` from the LAST
// return statement of the function (earlier statements must be test hooks; their
// number is recorded so that an added early return is noticed).
func predFact(rel, recv, fn, coq, typ string, enums func() map[string]string) Fact {
	return Fact{Name: coq, Gen: func() string {
		p := loadPkg(rel)
		fd := p.Func(recv, fn)
		stmts := fd.Body.List
		ret, ok := stmts[len(stmts)-1].(*ast.ReturnStmt)
		if !ok || len(ret.Results) != 1 {
			panic(fn + ": last statement is not a single-value return")
		}
		c := &exprCtx{p: p, atoms: map[string]string{}, enums: enums()}
		body := c.tr(ret.Results[0], typ)
		var names []string
		for n := range c.atoms {
			names = append(names, n)
		}
		sort.Strings(names)
		var params []string
		for _, n := range names {
			params = append(params, fmt.Sprintf("(%s : %s)", n, c.atoms[n]))
		}
		return fmt.Sprintf("(* %s.%s: %d statement(s) before the return *)\nDefinition %s %s : %s := %s.\n",
			recv, fn, len(stmts)-1, coq, strings.Join(params, " "), typ, body)
	}}
}
