package main

import (
	"fmt"
	"go/ast"
	"go/token"
	"math/big"
	"strconv"
	"strings"
)

// C15 — snapshot chunk transfer (internal/transport/chunk.go, snapshot.go).

// c15SoftSetting evaluates `Name: value` inside the composite literal returned
// by settings.getDefaultSoftSettings.
func c15SoftSetting(name string) *big.Int {
	p := loadPkg("internal/settings")
	fd := p.Func("", "getDefaultSoftSettings")
	var found []*big.Int
	ast.Inspect(fd.Body, func(n ast.Node) bool {
		if kv, ok := n.(*ast.KeyValueExpr); ok {
			if id, ok := kv.Key.(*ast.Ident); ok && id.Name == name {
				found = append(found, p.Eval(kv.Value, 0))
			}
		}
		return true
	})
	if len(found) != 1 {
		panic(fmt.Sprintf("soft setting %s: %d initialisers", name, len(found)))
	}
	return found[0]
}

// c15VarSelector checks that package variable `v` of internal/transport is
// initialised with the selector expression `want` (e.g. settings.Soft.X).
func c15VarSelector(v string, want string) {
	p := loadPkg("internal/transport")
	e, _, ok := p.valueSpec(v)
	if !ok {
		panic("variable " + v + " not found")
	}
	if got := exprString(e); got != want {
		panic(fmt.Sprintf("%s is initialised with %s, expected %s", v, got, want))
	}
}

func exprString(e ast.Expr) string {
	switch x := e.(type) {
	case *ast.Ident:
		return x.Name
	case *ast.SelectorExpr:
		return exprString(x.X) + "." + x.Sel.Name
	case *ast.CallExpr:
		var as []string
		for _, a := range x.Args {
			as = append(as, exprString(a))
		}
		return exprString(x.Fun) + "(" + strings.Join(as, ",") + ")"
	case *ast.UnaryExpr:
		return x.Op.String() + exprString(x.X)
	case *ast.BinaryExpr:
		return exprString(x.X) + x.Op.String() + exprString(x.Y)
	case *ast.ParenExpr:
		return "(" + exprString(x.X) + ")"
	case *ast.BasicLit:
		return x.Value
	case *ast.StarExpr:
		return "*" + exprString(x.X)
	case *ast.IndexExpr:
		return exprString(x.X) + "[" + exprString(x.Index) + "]"
	}
	return fmt.Sprintf("<%T>", e)
}

// callsIn lists, in source order, the printed callee of every call expression
// below n together with its position.
type c15Call struct {
	name string
	pos  token.Pos
}

func c15Calls(n ast.Node) []c15Call {
	var out []c15Call
	ast.Inspect(n, func(x ast.Node) bool {
		if c, ok := x.(*ast.CallExpr); ok {
			out = append(out, c15Call{exprString(c.Fun), c.Pos()})
		}
		return true
	})
	return out
}

// c15IfNot finds the if statement of fn whose condition is `!<callee>(...)`.
func c15IfNot(fn *ast.FuncDecl, callee string) *ast.IfStmt {
	var res *ast.IfStmt
	ast.Inspect(fn.Body, func(x ast.Node) bool {
		if is, ok := x.(*ast.IfStmt); ok {
			if u, ok := is.Cond.(*ast.UnaryExpr); ok && u.Op == token.NOT {
				if c, ok := u.X.(*ast.CallExpr); ok && exprString(c.Fun) == callee {
					if res == nil {
						res = is
					}
				}
			}
		}
		return true
	})
	if res == nil {
		panic("no `if !" + callee + "(...)` in " + fn.Name.Name)
	}
	return res
}

func c15StringConst(pkg, name string) string {
	p := loadPkg(pkg)
	e, _, ok := p.valueSpec(name)
	if !ok {
		panic("constant " + name + " not found")
	}
	bl, ok := e.(*ast.BasicLit)
	if !ok || bl.Kind != token.STRING {
		panic(name + " is not a string literal")
	}
	s, err := strconv.Unquote(bl.Value)
	if err != nil {
		panic(err)
	}
	return s
}

func defBytes(name string, s string) string {
	var el []string
	for i := 0; i < len(s); i++ {
		el = append(el, strconv.Itoa(int(s[i])))
	}
	return fmt.Sprintf("Definition %s : list N := [%s]. (* %q *)\n", name, strings.Join(el, "; "), s)
}

// c15HasCond reports whether fn contains an if statement whose condition
// prints as cond.
func c15HasCond(fn *ast.FuncDecl, cond string) bool {
	found := false
	ast.Inspect(fn.Body, func(x ast.Node) bool {
		if is, ok := x.(*ast.IfStmt); ok && exprString(is.Cond) == cond {
			found = true
		}
		return true
	})
	return found
}

func init() {
	tp := func() *Pkg { return loadPkg("internal/transport") }
	register(&Unit{Name: "C15", Facts: []Fact{
		NFact("snapshot_chunk_size", func() *big.Int {
			c15VarSelector("snapshotChunkSize", "settings.SnapshotChunkSize")
			return loadPkg("internal/settings").Const("SnapshotChunkSize")
		}),
		NFact("snapshot_gc_tick", func() *big.Int {
			c15VarSelector("gcIntervalTick", "settings.Soft.SnapshotGCTick")
			return c15SoftSetting("SnapshotGCTick")
		}),
		NFact("snapshot_chunk_timeout_tick", func() *big.Int {
			c15VarSelector("snapshotChunkTimeoutTick", "settings.Soft.SnapshotChunkTimeoutTick")
			return c15SoftSetting("SnapshotChunkTimeoutTick")
		}),
		NFact("max_concurrent_slot", func() *big.Int {
			c15VarSelector("maxConcurrentSlot", "settings.Soft.MaxConcurrentStreamingSnapshot")
			return c15SoftSetting("MaxConcurrentStreamingSnapshot")
		}),
		NFact("transport_bin_version", func() *big.Int { return loadPkg("raftio").Const("TransportBinVersion") }),
		NFact("last_chunk_count", func() *big.Int { return loadPkg("raftpb").Const("LastChunkCount") }),
		NFact("poison_chunk_count", func() *big.Int { return loadPkg("raftpb").Const("PoisonChunkCount") }),
		NFact("snapshot_header_size", func() *big.Int { return loadPkg("internal/settings").Const("SnapshotHeaderSize") }),
		{Name: "block_file_magic", Gen: func() string {
			var b []byte
			for _, v := range byteArrayVar(loadPkg("internal/settings"), "BlockFileMagicNumber") {
				b = append(b, byte(v.Uint64()))
			}
			return defBytes("block_file_magic", string(b))
		}},
		// getWitnessChunk: the fixed file name of a witness snapshot chunk
		{Name: "witness_snapshot_filename", Gen: func() string {
			fd := tp().Func("", "getWitnessChunk")
			var lits []string
			ast.Inspect(fd.Body, func(n ast.Node) bool {
				if kv, ok := n.(*ast.KeyValueExpr); ok {
					if id, ok := kv.Key.(*ast.Ident); ok && id.Name == "Filepath" {
						if bl, ok := kv.Value.(*ast.BasicLit); ok && bl.Kind == token.STRING {
							s, _ := strconv.Unquote(bl.Value)
							lits = append(lits, s)
						}
					}
				}
				return true
			})
			if len(lits) != 1 {
				panic(fmt.Sprintf("getWitnessChunk: %d Filepath literals", len(lits)))
			}
			return defBytes("witness_snapshot_filename", lits[0])
		}},
		{Name: "snapshot_flag_filename", Gen: func() string {
			return defBytes("snapshot_flag_filename", c15StringConst("internal/fileutil", "SnapshotFlagFilename"))
		}},
		// addLocked: when the incremental validator refuses a chunk the stream is
		// dropped (temp dir removed and the key untracked) before returning
		{Name: "drop_stream_on_invalid_chunk", Gen: func() string {
			is := c15IfNot(tp().Func("Chunk", "addLocked"), "td.validator.AddChunk")
			rm, rs := false, false
			for _, c := range c15Calls(is.Body) {
				if c.name == "c.removeTempDir" {
					rm = true
				}
				if c.name == "c.reset" || c.name == "c.resetLocked" {
					rs = true
				}
			}
			return defBool("drop_stream_on_invalid_chunk", rm && rs)
		}},
		// record: the first chunk is validated before the previous stream of the
		// same key is discarded (a refused first chunk then has no effect)
		{Name: "first_chunk_validated_before_discard", Gen: func() string {
			fn := tp().Func("Chunk", "record")
			var v, rm token.Pos
			for _, c := range c15Calls(fn.Body) {
				if c.name == "validator.AddChunk" && v == 0 {
					v = c.pos
				}
				if c.name == "c.removeTempDir" && rm == 0 {
					rm = c.pos
				}
			}
			if v == 0 || rm == 0 {
				panic("record: validator.AddChunk / c.removeTempDir not found")
			}
			return defBool("first_chunk_validated_before_discard", v < rm)
		}},
		// the acceptance checks of record / Add, as written
		{Name: "record_checks", Gen: func() string {
			rec := tp().Func("Chunk", "record")
			add := tp().Func("Chunk", "Add")
			ok := c15HasCond(rec, "td.next!=chunk.ChunkId") && c15HasCond(rec, "want!=from") &&
				c15HasCond(rec, "td==nil") && c15HasCond(rec, "chunk.ChunkId==0") &&
				c15HasCond(add, "chunk.DeploymentId!=c.did||chunk.BinVer!=raftio.TransportBinVersion")
			return defBool("record_checks_present", ok)
		}},
	}})
}
