package main

import (
	"math/big"
)

// C07: the config change enum (raftpb/types.go) the membership model depends on.

func zFact(name string, f func() *big.Int) Fact {
	return Fact{Name: name, Gen: func() string { return defZ(name, f()) }}
}

func init() {
	register(&Unit{Name: "C07", Facts: []Fact{
		zFact("cc_add_node", func() *big.Int { return loadPkg("raftpb").Const("AddNode") }),
		zFact("cc_remove_node", func() *big.Int { return loadPkg("raftpb").Const("RemoveNode") }),
		zFact("cc_add_non_voting", func() *big.Int { return loadPkg("raftpb").Const("AddNonVoting") }),
		zFact("cc_add_witness", func() *big.Int { return loadPkg("raftpb").Const("AddWitness") }),
	}})
}
