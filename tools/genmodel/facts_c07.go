package main

import (
	"go/ast"
	"go/token"
	"math/big"
)

// C07: the config change enum (raftpb/types.go) the membership model depends on.

func zFact(name string, f func() *big.Int) Fact {
	return Fact{Name: name, Gen: func() string { return defZ(name, f()) }}
}

// c07OrderedIsConfig: in rsm.NewStateMachine the third argument of the
// newMembership(...) call (the membership object's `ordered` flag) is exactly
// <cfg>.OrderedConfigChange, directly or through a local variable defined as
// exactly that - no dependence on the replica's kind (IsWitness, IsNonVoting)
// or on anything else.
func c07OrderedIsConfig() bool {
	p := loadPkg("internal/rsm")
	fn := p.Func("", "NewStateMachine")
	locals := map[string]ast.Expr{}
	multi := map[string]bool{}
	var arg ast.Expr
	calls := 0
	ast.Inspect(fn.Body, func(n ast.Node) bool {
		switch x := n.(type) {
		case *ast.AssignStmt:
			for i, l := range x.Lhs {
				if id, ok := l.(*ast.Ident); ok && len(x.Lhs) == len(x.Rhs) {
					if _, seen := locals[id.Name]; seen || x.Tok != token.DEFINE {
						multi[id.Name] = true
					}
					locals[id.Name] = x.Rhs[i]
				}
			}
		case *ast.CallExpr:
			if id, ok := x.Fun.(*ast.Ident); ok && id.Name == "newMembership" && len(x.Args) == 3 {
				calls++
				arg = x.Args[2]
			}
		}
		return true
	})
	if calls != 1 {
		panic("NewStateMachine: expected exactly one newMembership(shard, replica, ordered) call")
	}
	for i := 0; i < 4; i++ {
		if pe, ok := arg.(*ast.ParenExpr); ok {
			arg = pe.X
			continue
		}
		if id, ok := arg.(*ast.Ident); ok {
			if e, ok := locals[id.Name]; ok && !multi[id.Name] {
				arg = e
				continue
			}
		}
		break
	}
	sel, ok := arg.(*ast.SelectorExpr)
	if !ok || sel.Sel.Name != "OrderedConfigChange" {
		return false
	}
	_, ok = sel.X.(*ast.Ident)
	return ok
}

func init() {
	register(&Unit{Name: "C07", Facts: []Fact{
		zFact("cc_add_node", func() *big.Int { return loadPkg("raftpb").Const("AddNode") }),
		zFact("cc_remove_node", func() *big.Int { return loadPkg("raftpb").Const("RemoveNode") }),
		zFact("cc_add_non_voting", func() *big.Int { return loadPkg("raftpb").Const("AddNonVoting") }),
		zFact("cc_add_witness", func() *big.Int { return loadPkg("raftpb").Const("AddWitness") }),
		{Name: "membership_ordered_is_config_ordered", Gen: func() string {
			return "(* rsm.NewStateMachine: newMembership(_, _, ordered) with ordered = cfg.OrderedConfigChange and nothing else *)\n" +
				defBool("membership_ordered_is_config_ordered", c07OrderedIsConfig())
		}},
	}})
}
