package main

import (
	"fmt"
	"go/ast"
	"go/token"
	"math/big"
	"strings"
)

// C07: facts about internal/rsm/membership.go the membership model depends on.

func zFact(name string, f func() *big.Int) Fact {
	return Fact{Name: name, Gen: func() string { return defZ(name, f()) }}
}

// c07Conjuncts flattens `accepted := a && !b && ...` of handleConfigChange and
// resolves every variable to the membership method it was assigned from
// (`x := m.method(cc)`). Result: (negated, method) in source order.
func c07Conjuncts() [][2]string {
	p := loadPkg("internal/rsm")
	fn := p.Func("membership", "handleConfigChange")
	from := map[string]string{}
	var acc ast.Expr
	for _, st := range fn.Body.List {
		as, ok := st.(*ast.AssignStmt)
		if !ok || as.Tok != token.DEFINE || len(as.Lhs) != 1 || len(as.Rhs) != 1 {
			continue
		}
		lhs, ok := as.Lhs[0].(*ast.Ident)
		if !ok {
			continue
		}
		if lhs.Name == "accepted" {
			acc = as.Rhs[0]
			continue
		}
		if call, ok := as.Rhs[0].(*ast.CallExpr); ok {
			if sel, ok := call.Fun.(*ast.SelectorExpr); ok {
				if id, ok := sel.X.(*ast.Ident); ok && id.Name == "m" && len(call.Args) == 1 {
					if a, ok := call.Args[0].(*ast.Ident); ok && a.Name == "cc" {
						from[lhs.Name] = sel.Sel.Name
					}
				}
			}
		}
	}
	if acc == nil {
		panic("handleConfigChange: `accepted := ...` not found")
	}
	var flat func(e ast.Expr) []ast.Expr
	flat = func(e ast.Expr) []ast.Expr {
		switch x := e.(type) {
		case *ast.ParenExpr:
			return flat(x.X)
		case *ast.BinaryExpr:
			if x.Op == token.LAND {
				return append(flat(x.X), flat(x.Y)...)
			}
		}
		return []ast.Expr{e}
	}
	var out [][2]string
	for _, e := range flat(acc) {
		neg := "false"
		if u, ok := e.(*ast.UnaryExpr); ok && u.Op == token.NOT {
			neg = "true"
			e = u.X
		}
		id, ok := e.(*ast.Ident)
		if !ok {
			panic(fmt.Sprintf("handleConfigChange: conjunct at %s is not a variable", p.Fset.Position(e.Pos())))
		}
		meth, ok := from[id.Name]
		if !ok {
			panic("handleConfigChange: conjunct " + id.Name + " is not assigned from m.<method>(cc)")
		}
		out = append(out, [2]string{neg, meth})
	}
	return out
}

// c07ApplyShape: handleConfigChange calls m.apply(cc, index) exactly once, inside `if accepted`,
// and returns `accepted`.
func c07ApplyGuarded() bool {
	p := loadPkg("internal/rsm")
	fn := p.Func("membership", "handleConfigChange")
	calls, guarded := 0, 0
	isApply := func(n ast.Node) bool {
		call, ok := n.(*ast.CallExpr)
		if !ok {
			return false
		}
		sel, ok := call.Fun.(*ast.SelectorExpr)
		if !ok || sel.Sel.Name != "apply" {
			return false
		}
		id, ok := sel.X.(*ast.Ident)
		return ok && id.Name == "m"
	}
	ast.Inspect(fn.Body, func(n ast.Node) bool {
		if isApply(n) {
			calls++
		}
		if ifs, ok := n.(*ast.IfStmt); ok {
			if c, ok := ifs.Cond.(*ast.Ident); ok && c.Name == "accepted" {
				ast.Inspect(ifs.Body, func(k ast.Node) bool {
					if isApply(k) {
						guarded++
					}
					return true
				})
			}
		}
		return true
	})
	ret := false
	if n := len(fn.Body.List); n > 0 {
		if r, ok := fn.Body.List[n-1].(*ast.ReturnStmt); ok && len(r.Results) == 1 {
			if id, ok := r.Results[0].(*ast.Ident); ok && id.Name == "accepted" {
				ret = true
			}
		}
	}
	return calls == 1 && guarded == 1 && ret
}

// addressEqual(a, b) is strings.EqualFold(strings.TrimSpace(a), strings.TrimSpace(b))
func c07AddressEqualShape() bool {
	p := loadPkg("internal/rsm")
	fn := p.Func("", "addressEqual")
	if len(fn.Body.List) != 1 {
		return false
	}
	r, ok := fn.Body.List[0].(*ast.ReturnStmt)
	if !ok || len(r.Results) != 1 {
		return false
	}
	isCall := func(e ast.Expr, pkg, name string, nargs int) (*ast.CallExpr, bool) {
		c, ok := e.(*ast.CallExpr)
		if !ok || len(c.Args) != nargs {
			return nil, false
		}
		s, ok := c.Fun.(*ast.SelectorExpr)
		if !ok || s.Sel.Name != name {
			return nil, false
		}
		id, ok := s.X.(*ast.Ident)
		return c, ok && id.Name == pkg
	}
	ef, ok := isCall(r.Results[0], "strings", "EqualFold", 2)
	if !ok {
		return false
	}
	params := []string{}
	for _, f := range fn.Type.Params.List {
		for _, n := range f.Names {
			params = append(params, n.Name)
		}
	}
	if len(params) != 2 {
		return false
	}
	for i, a := range ef.Args {
		ts, ok := isCall(a, "strings", "TrimSpace", 1)
		if !ok {
			return false
		}
		id, ok := ts.Args[0].(*ast.Ident)
		if !ok || id.Name != params[i] {
			return false
		}
	}
	return true
}

func init() {
	register(&Unit{Name: "C07", Facts: []Fact{
		zFact("cc_add_node", func() *big.Int { return loadPkg("raftpb").Const("AddNode") }),
		zFact("cc_remove_node", func() *big.Int { return loadPkg("raftpb").Const("RemoveNode") }),
		zFact("cc_add_non_voting", func() *big.Int { return loadPkg("raftpb").Const("AddNonVoting") }),
		zFact("cc_add_witness", func() *big.Int { return loadPkg("raftpb").Const("AddWitness") }),
		{Name: "accepted_conjuncts", Gen: func() string {
			var items []string
			for _, c := range c07Conjuncts() {
				items = append(items, fmt.Sprintf("(%s, \"%s\"%%string)", c[0], c[1]))
			}
			return "(* handleConfigChange: accepted := <conjunction>; (negated, membership method) in source order *)\n" +
				"Definition accepted_conjuncts : list (bool * string) :=\n  [" + strings.Join(items, ";\n   ") + "].\n"
		}},
		{Name: "apply_only_when_accepted", Gen: func() string {
			return defBool("apply_only_when_accepted", c07ApplyGuarded())
		}},
		{Name: "address_equal_is_equalfold_of_trimspace", Gen: func() string {
			return defBool("address_equal_is_equalfold_of_trimspace", c07AddressEqualShape())
		}},
	}})
}
