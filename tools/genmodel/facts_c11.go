package main

// C11: the LOCK TABLE of internal/rsm and two facts about the engine's
// node-loading protocol.
//
// For every path from an exported method of rsm.StateMachine to a call of a
// user state machine method (through NativeSM and the adapters of adapter.go)
// the table records which of StateMachine.mu / NativeSM.mu is held in which
// mode at the call and whether the aborted / destroyed flag was tested on the
// way. It is computed by an abstract walk over the function bodies:
//   X.mu.Lock()/RLock()            -> the mutex of X's type is held from here on
//   defer X.mu.Unlock()/RUnlock()  -> ... until the enclosing function (literal) ends
//   X.mu.Unlock()/RUnlock()        -> released here
//   if X.aborted/destroyed {return}-> flag tested (under whatever is held then)
//   if [!]X.Concurrent() / [!]X.OnDiskStateMachine() {...return}
//                                  -> the state-machine kind the row applies to
//   s.sm.M(..)        (s *StateMachine) -> continue in NativeSM.M
//   s.snapshotter.Save/Load/Stream(.. s.sm ..) -> continue in NativeSM.Save/Recover/Stream
//   s.m(..) / ds.m(..)                   -> continue in the method
//   ds.sm.M(..)       (ds *NativeSM)     -> a user call site (adapter method M)
//   ds.SetDestroyed()                    -> the write of the destroyed flag

import (
	"fmt"
	"go/ast"
	"go/token"
	"sort"
	"strings"
)

type c11Row struct {
	root, meth, path   string
	smu, dmu           int // 0 none 1 RLock 2 Lock
	chkAborted, chkDes bool
	conc, disk         int // 0 any 1 false 2 true
	ssec, dsec         int // critical-section ids (0 = not held); equal ids = same section
}

type c11State struct {
	sec        map[string]int
	held       map[string]int
	chkAborted bool
	chkDes     bool
	conc, disk int
	vars       map[string][2]int // local bool -> implied (conc, disk) when true
}

func (s c11State) clone() c11State {
	h := map[string]int{}
	for k, v := range s.held {
		h[k] = v
	}
	v2 := map[string][2]int{}
	for k, v := range s.vars {
		v2[k] = v
	}
	sc := map[string]int{}
	for k, v := range s.sec {
		sc[k] = v
	}
	return c11State{sec: sc, held: h, chkAborted: s.chkAborted, chkDes: s.chkDes, conc: s.conc, disk: s.disk, vars: v2}
}

type c11Walker struct {
	p        *Pkg
	rows     []c11Row
	root     string
	secs     int
	stack    []string
	adapters map[string]string // adapter method -> user method
}

func c11Recv(fd *ast.FuncDecl) (typ, name string) {
	if fd.Recv == nil || len(fd.Recv.List) == 0 {
		return "", ""
	}
	t := fd.Recv.List[0].Type
	if s, ok := t.(*ast.StarExpr); ok {
		t = s.X
	}
	if id, ok := t.(*ast.Ident); ok {
		typ = id.Name
	}
	if len(fd.Recv.List[0].Names) > 0 {
		name = fd.Recv.List[0].Names[0].Name
	}
	return
}

func c11Sel(e ast.Expr) string {
	switch x := e.(type) {
	case *ast.Ident:
		return x.Name
	case *ast.SelectorExpr:
		s := c11Sel(x.X)
		if s == "" {
			return ""
		}
		return s + "." + x.Sel.Name
	case *ast.ParenExpr:
		return c11Sel(x.X)
	}
	return ""
}

func (p *Pkg) c11Method(recv, name string) *ast.FuncDecl {
	for _, f := range p.Files {
		for _, d := range f.Decls {
			fd, ok := d.(*ast.FuncDecl)
			if !ok || fd.Name.Name != name || fd.Body == nil {
				continue
			}
			if t, _ := c11Recv(fd); t == recv {
				return fd
			}
		}
	}
	return nil
}

// c11Adapters reads adapter.go: for each adapter method the user-interface
// method it forwards to (i.sm.X / s.na.X / s.h.X); the three adapters must agree.
func c11Adapters(p *Pkg) map[string]string {
	res := map[string]string{}
	for _, typ := range []string{"InMemStateMachine", "ConcurrentStateMachine", "OnDiskStateMachine"} {
		for _, f := range p.Files {
			for _, d := range f.Decls {
				fd, ok := d.(*ast.FuncDecl)
				if !ok || fd.Body == nil {
					continue
				}
				t, r := c11Recv(fd)
				if t != typ {
					continue
				}
				ast.Inspect(fd.Body, func(n ast.Node) bool {
					c, ok := n.(*ast.CallExpr)
					if !ok {
						return true
					}
					s := c11Sel(c.Fun)
					for _, fld := range []string{"sm", "na", "h"} {
						pre := r + "." + fld + "."
						if strings.HasPrefix(s, pre) {
							u := strings.TrimPrefix(s, pre)
							if old, ok := res[fd.Name.Name]; ok && old != u {
								panic(fmt.Sprintf("adapter method %s forwards to %s and %s", fd.Name.Name, old, u))
							}
							res[fd.Name.Name] = u
						}
					}
					return true
				})
			}
		}
	}
	return res
}

var c11SnapshotterCallback = map[string]string{"Save": "Save", "Load": "Recover", "Stream": "Stream"}

func c11Terminates(b *ast.BlockStmt) bool {
	if b == nil || len(b.List) == 0 {
		return false
	}
	switch x := b.List[len(b.List)-1].(type) {
	case *ast.ReturnStmt:
		return true
	case *ast.ExprStmt:
		if c, ok := x.X.(*ast.CallExpr); ok {
			s := c11Sel(c.Fun)
			return s == "panic" || strings.HasSuffix(s, ".Panicf")
		}
	}
	return false
}

// kindOf: the (conc, disk) implication of a condition expression being true,
// and whether the condition is exactly a kind test (so that its negation is one too).
func (w *c11Walker) kindOf(e ast.Expr, r string, st *c11State) (conc, disk int, exact bool) {
	switch x := e.(type) {
	case *ast.ParenExpr:
		return w.kindOf(x.X, r, st)
	case *ast.UnaryExpr:
		if x.Op == token.NOT {
			c, d, ex := w.kindOf(x.X, r, st)
			if !ex {
				return 0, 0, false
			}
			neg := func(v int) int {
				if v == 0 {
					return 0
				}
				return 3 - v
			}
			return neg(c), neg(d), true
		}
	case *ast.CallExpr:
		switch c11Sel(x.Fun) {
		case r + ".Concurrent", r + ".sm.Concurrent":
			return 2, 0, true
		case r + ".OnDiskStateMachine", r + ".sm.OnDisk":
			return 0, 2, true
		}
	case *ast.Ident:
		if v, ok := st.vars[x.Name]; ok {
			return v[0], v[1], false
		}
	case *ast.BinaryExpr:
		if x.Op == token.LAND {
			c1, d1, _ := w.kindOf(x.X, r, st)
			c2, d2, _ := w.kindOf(x.Y, r, st)
			if c1 == 0 {
				c1 = c2
			}
			if d1 == 0 {
				d1 = d2
			}
			return c1, d1, false
		}
	}
	return 0, 0, false
}

// meet combines the current kind restriction with a new one; ok=false when contradictory.
func c11Meet(cur, add int) (int, bool) {
	if add == 0 || cur == add {
		return cur, true
	}
	if cur == 0 {
		return add, true
	}
	return cur, false
}

func (w *c11Walker) walkFunc(recv, name string, st c11State) {
	key := recv + "." + name
	for _, s := range w.stack {
		if s == key {
			return
		}
	}
	fd := w.p.c11Method(recv, name)
	if fd == nil {
		return
	}
	_, r := c11Recv(fd)
	w.stack = append(w.stack, key)
	inner := st.clone()
	inner.vars = map[string][2]int{}
	w.walkBlock(fd.Body.List, recv, r, &inner)
	w.stack = w.stack[:len(w.stack)-1]
}

func (w *c11Walker) walkBlock(list []ast.Stmt, recv, r string, st *c11State) {
	for _, s := range list {
		w.walkStmt(s, recv, r, st)
	}
}

func (w *c11Walker) walkStmt(s ast.Stmt, recv, r string, st *c11State) {
	switch x := s.(type) {
	case *ast.DeferStmt:
		name := c11Sel(x.Call.Fun)
		if name == r+".mu.Unlock" || name == r+".mu.RUnlock" {
			return // held until the end of the enclosing function (literal)
		}
		w.walkExpr(x.Call, recv, r, st)
	case *ast.IfStmt:
		if x.Init != nil {
			w.walkStmt(x.Init, recv, r, st)
		}
		w.walkExpr(x.Cond, recv, r, st)
		// flag tests
		cs := c11Sel(x.Cond)
		if (cs == r+".aborted" || cs == r+".destroyed") && c11Terminates(x.Body) {
			if cs == r+".aborted" {
				st.chkAborted = true
			} else {
				st.chkDes = true
			}
			return
		}
		conc, disk, exact := w.kindOf(x.Cond, r, st)
		body := st.clone()
		c1, ok1 := c11Meet(body.conc, conc)
		d1, ok2 := c11Meet(body.disk, disk)
		if ok1 && ok2 {
			body.conc, body.disk = c1, d1
			w.walkBlock(x.Body.List, recv, r, &body)
		}
		neg := func(v int) int {
			if v == 0 || !exact {
				return 0
			}
			return 3 - v
		}
		if x.Else != nil {
			els := st.clone()
			c2, ok3 := c11Meet(els.conc, neg(conc))
			d2, ok4 := c11Meet(els.disk, neg(disk))
			if ok3 && ok4 {
				els.conc, els.disk = c2, d2
				w.walkStmt(x.Else, recv, r, &els)
			}
		}
		if c11Terminates(x.Body) && x.Else == nil {
			c2, ok3 := c11Meet(st.conc, neg(conc))
			d2, ok4 := c11Meet(st.disk, neg(disk))
			if ok3 && ok4 {
				st.conc, st.disk = c2, d2
			} else {
				// the rest of the block is unreachable for this kind
				st.conc, st.disk = -1, -1
			}
		}
	case *ast.BlockStmt:
		w.walkBlock(x.List, recv, r, st)
	case *ast.ForStmt:
		if x.Init != nil {
			w.walkStmt(x.Init, recv, r, st)
		}
		if x.Cond != nil {
			w.walkExpr(x.Cond, recv, r, st)
		}
		w.walkBlock(x.Body.List, recv, r, st)
	case *ast.RangeStmt:
		w.walkExpr(x.X, recv, r, st)
		w.walkBlock(x.Body.List, recv, r, st)
	case *ast.SwitchStmt:
		if x.Init != nil {
			w.walkStmt(x.Init, recv, r, st)
		}
		for _, c := range x.Body.List {
			cc := c.(*ast.CaseClause)
			b := st.clone()
			w.walkBlock(cc.Body, recv, r, &b)
		}
	case *ast.AssignStmt:
		for _, e := range x.Rhs {
			w.walkExpr(e, recv, r, st)
		}
		if len(x.Lhs) == 1 && len(x.Rhs) == 1 {
			if id, ok := x.Lhs[0].(*ast.Ident); ok {
				c, d, _ := w.kindOf(x.Rhs[0], r, st)
				if c != 0 || d != 0 {
					st.vars[id.Name] = [2]int{c, d}
				}
			}
		}
	case *ast.ExprStmt:
		w.walkExpr(x.X, recv, r, st)
	case *ast.ReturnStmt:
		for _, e := range x.Results {
			w.walkExpr(e, recv, r, st)
		}
	case *ast.DeclStmt, *ast.IncDecStmt, *ast.BranchStmt, *ast.EmptyStmt:
	case *ast.GoStmt:
		panic("go statement in internal/rsm call path: " + w.p.Fset.Position(x.Pos()).String())
	default:
		// select, labeled, ... : walk the expressions conservatively
		ast.Inspect(s, func(n ast.Node) bool {
			if e, ok := n.(ast.Expr); ok {
				w.walkExpr(e, recv, r, st)
				return false
			}
			return true
		})
	}
}

// walkExpr visits the calls of an expression in source order (arguments first).
func (w *c11Walker) walkExpr(e ast.Expr, recv, r string, st *c11State) {
	if e == nil || st.conc < 0 {
		return
	}
	switch x := e.(type) {
	case *ast.FuncLit:
		return // only executed when called; see CallExpr
	case *ast.CallExpr:
		for _, a := range x.Args {
			w.walkExpr(a, recv, r, st)
		}
		if fl, ok := x.Fun.(*ast.FuncLit); ok {
			inner := st.clone()
			w.walkBlock(fl.Body.List, recv, r, &inner)
			return
		}
		name := c11Sel(x.Fun)
		lockName := recv + ".mu"
		switch name {
		case r + ".mu.Lock":
			st.held[lockName] = 2
			w.secs++
			st.sec[lockName] = w.secs
			return
		case r + ".mu.RLock":
			st.held[lockName] = 1
			w.secs++
			st.sec[lockName] = w.secs
			return
		case r + ".mu.Unlock", r + ".mu.RUnlock":
			delete(st.held, lockName)
			delete(st.sec, lockName)
			return
		case r + ".SetDestroyed":
			w.emit("SetDestroyed", st)
			return
		}
		if strings.HasPrefix(name, r+".sm.") {
			m := strings.TrimPrefix(name, r+".sm.")
			if recv == "StateMachine" {
				w.walkFunc("NativeSM", m, *st)
			} else if recv == "NativeSM" {
				if u, ok := w.adapters[m]; ok {
					w.emit(u, st)
				}
			}
			return
		}
		if strings.HasPrefix(name, r+".snapshotter.") && recv == "StateMachine" {
			m := strings.TrimPrefix(name, r+".snapshotter.")
			if cb, ok := c11SnapshotterCallback[m]; ok {
				passes := false
				for _, a := range x.Args {
					if c11Sel(a) == r+".sm" {
						passes = true
					}
				}
				if passes {
					w.walkFunc("NativeSM", cb, *st)
				}
			}
			return
		}
		if strings.HasPrefix(name, r+".") && strings.Count(name, ".") == 1 {
			w.walkFunc(recv, strings.TrimPrefix(name, r+"."), *st)
			return
		}
		w.walkExpr(x.Fun, recv, r, st)
	case *ast.BinaryExpr:
		w.walkExpr(x.X, recv, r, st)
		w.walkExpr(x.Y, recv, r, st)
	case *ast.UnaryExpr:
		w.walkExpr(x.X, recv, r, st)
	case *ast.ParenExpr:
		w.walkExpr(x.X, recv, r, st)
	case *ast.SelectorExpr:
		w.walkExpr(x.X, recv, r, st)
	case *ast.CompositeLit:
		for _, el := range x.Elts {
			w.walkExpr(el, recv, r, st)
		}
	case *ast.KeyValueExpr:
		w.walkExpr(x.Value, recv, r, st)
	case *ast.IndexExpr:
		w.walkExpr(x.X, recv, r, st)
		w.walkExpr(x.Index, recv, r, st)
	case *ast.StarExpr:
		w.walkExpr(x.X, recv, r, st)
	case *ast.TypeAssertExpr:
		w.walkExpr(x.X, recv, r, st)
	}
}

func (w *c11Walker) emit(meth string, st *c11State) {
	if st.conc < 0 {
		return
	}
	row := c11Row{root: w.root, meth: meth, path: strings.Join(w.stack, " > "),
		smu: st.held["StateMachine.mu"], dmu: st.held["NativeSM.mu"],
		chkAborted: st.chkAborted, chkDes: st.chkDes, conc: st.conc, disk: st.disk,
		ssec: st.sec["StateMachine.mu"], dsec: st.sec["NativeSM.mu"]}
	for _, o := range w.rows {
		if o == row {
			return
		}
	}
	w.rows = append(w.rows, row)
}

func c11LockTable() []c11Row {
	p := loadPkg("internal/rsm")
	w := &c11Walker{p: p, adapters: c11Adapters(p)}
	// user methods the property talks about (GetHash etc. are left out)
	keep := map[string]bool{"Update": true, "Lookup": true, "NALookup": true, "Sync": true,
		"PrepareSnapshot": true, "SaveSnapshot": true, "RecoverFromSnapshot": true, "Close": true, "Open": true}
	for k, v := range w.adapters {
		if !keep[v] {
			delete(w.adapters, k)
		}
	}
	var roots []string
	for _, f := range p.Files {
		for _, d := range f.Decls {
			fd, ok := d.(*ast.FuncDecl)
			if !ok || fd.Body == nil || !fd.Name.IsExported() {
				continue
			}
			if t, _ := c11Recv(fd); t == "StateMachine" {
				roots = append(roots, fd.Name.Name)
			}
		}
	}
	sort.Strings(roots)
	for _, r := range roots {
		w.root = r
		w.stack = nil
		w.secs = 0
		w.walkFunc("StateMachine", r, c11State{sec: map[string]int{}, held: map[string]int{}, vars: map[string][2]int{}})
	}
	return w.rows
}

// c11LoadInsideForEach: in function fn of the root package, is every call
// `<x>.loaded()` placed inside the function literal passed to forEachShard
// (which runs under NodeHost.mu.RLock, the lock stopNode takes exclusively)?
func c11LoadInsideForEach(recv, fn string) bool {
	p := loadPkg(".")
	fd := p.Func(recv, fn)
	var lits []*ast.FuncLit
	ast.Inspect(fd.Body, func(n ast.Node) bool {
		if c, ok := n.(*ast.CallExpr); ok && strings.HasSuffix(c11Sel(c.Fun), ".forEachShard") {
			for _, a := range c.Args {
				if fl, ok := a.(*ast.FuncLit); ok {
					lits = append(lits, fl)
				}
			}
		}
		return true
	})
	if len(lits) == 0 {
		panic(fn + ": no forEachShard call found")
	}
	total, inside := 0, 0
	ast.Inspect(fd.Body, func(n ast.Node) bool {
		if c, ok := n.(*ast.CallExpr); ok && strings.HasSuffix(c11Sel(c.Fun), ".loaded") && len(c.Args) == 0 {
			total++
			for _, fl := range lits {
				if c.Pos() >= fl.Pos() && c.End() <= fl.End() {
					inside++
				}
			}
		}
		return true
	})
	if total == 0 {
		panic(fn + ": no loaded() call found")
	}
	return total == inside
}

// c11ChecksStopped: does function fn test `<node>.stopped()` before the first
// call named `call`?
func c11ChecksStopped(recv, fn, call string) bool {
	p := loadPkg(".")
	fd := p.Func(recv, fn)
	var stoppedPos, callPos token.Pos
	ast.Inspect(fd.Body, func(n ast.Node) bool {
		if c, ok := n.(*ast.CallExpr); ok {
			s := c11Sel(c.Fun)
			if strings.HasSuffix(s, ".stopped") && stoppedPos == 0 {
				stoppedPos = c.Pos()
			}
			if strings.HasSuffix(s, "."+call) && callPos == 0 {
				callPos = c.Pos()
			}
		}
		return true
	})
	if callPos == 0 {
		panic(fn + ": call " + call + " not found")
	}
	return stoppedPos != 0 && stoppedPos < callPos
}

// c11PoolRechecks: in workerPool.workerPoolMain every call p.schedule() is
// directly preceded (same block, previous statement) by p.loadNodes().
func c11PoolRechecks() bool {
	p := loadPkg(".")
	fd := p.Func("workerPool", "workerPoolMain")
	found, ok := 0, 0
	ast.Inspect(fd.Body, func(n ast.Node) bool {
		b, isB := n.(*ast.BlockStmt)
		if !isB {
			return true
		}
		for i, st := range b.List {
			es, isE := st.(*ast.ExprStmt)
			if !isE {
				continue
			}
			c, isC := es.X.(*ast.CallExpr)
			if !isC || !strings.HasSuffix(c11Sel(c.Fun), ".schedule") {
				continue
			}
			found++
			if i > 0 {
				if ps, isP := b.List[i-1].(*ast.ExprStmt); isP {
					if pc, isPC := ps.X.(*ast.CallExpr); isPC && strings.HasSuffix(c11Sel(pc.Fun), ".loadNodes") {
						ok++
					}
				}
			}
		}
		return true
	})
	if found == 0 {
		panic("workerPoolMain: no schedule() call found")
	}
	return found == ok
}

// c11PoolStopOrder: in workerPool.workerPoolMain the call <p>.workerStopper.Stop()
// (which waits for every snapshot worker to return from its job) comes before
// <p>.unloadNodes() (which drops the pool's and the busy references), both exactly once.
func c11PoolStopOrder() bool {
	p := loadPkg(".")
	fd := p.Func("workerPool", "workerPoolMain")
	var stop, unload []token.Pos
	ast.Inspect(fd.Body, func(n ast.Node) bool {
		if c, ok := n.(*ast.CallExpr); ok {
			s := c11Sel(c.Fun)
			if strings.HasSuffix(s, ".workerStopper.Stop") {
				stop = append(stop, c.Pos())
			}
			if strings.HasSuffix(s, ".unloadNodes") {
				unload = append(unload, c.Pos())
			}
		}
		return true
	})
	if len(stop) != 1 || len(unload) != 1 {
		panic(fmt.Sprintf("workerPoolMain: %d workerStopper.Stop() and %d unloadNodes() calls", len(stop), len(unload)))
	}
	return stop[0] < unload[0]
}

// c11SchedChecksLoaded: workerPool.scheduleWorker looks every pending job's shard up in the
// pool's node map (`n, ok := p.nodes[...]`), drops the job when it is missing
// (`if !ok { p.removeFromPending(..) ... }`) and schedules on the looked-up node.
func c11SchedChecksLoaded() bool {
	p := loadPkg(".")
	fd := p.Func("workerPool", "scheduleWorker")
	nodeVar := ""
	drops := false
	usesLooked := false
	calls := 0
	ast.Inspect(fd.Body, func(n ast.Node) bool {
		switch x := n.(type) {
		case *ast.AssignStmt:
			if len(x.Lhs) == 2 && len(x.Rhs) == 1 {
				if ie, ok := x.Rhs[0].(*ast.IndexExpr); ok && strings.HasSuffix(c11Sel(ie.X), ".nodes") {
					if id, ok := x.Lhs[0].(*ast.Ident); ok {
						nodeVar = id.Name
					}
				}
			}
		case *ast.IfStmt:
			if u, ok := x.Cond.(*ast.UnaryExpr); ok && u.Op == token.NOT && c11Sel(u.X) == "ok" && nodeVar != "" {
				ast.Inspect(x.Body, func(m ast.Node) bool {
					if c, ok := m.(*ast.CallExpr); ok && strings.HasSuffix(c11Sel(c.Fun), ".removeFromPending") {
						drops = true
					}
					return true
				})
			}
		case *ast.CallExpr:
			if strings.HasSuffix(c11Sel(x.Fun), ".scheduleTask") && len(x.Args) >= 2 {
				calls++
				if id, ok := x.Args[1].(*ast.Ident); ok && id.Name == nodeVar && nodeVar != "" {
					usesLooked = true
				}
			}
		}
		return true
	})
	if calls == 0 {
		panic("scheduleWorker: no scheduleTask call found")
	}
	return drops && usesLooked && calls == 1
}

// c11CanStreamChecksFlag: node.canStream returns false when <n>.ss.streaming().
func c11CanStreamChecksFlag() bool {
	p := loadPkg(".")
	fd := p.Func("node", "canStream")
	found := false
	ast.Inspect(fd.Body, func(n ast.Node) bool {
		if x, ok := n.(*ast.IfStmt); ok {
			if c, ok := x.Cond.(*ast.CallExpr); ok && strings.HasSuffix(c11Sel(c.Fun), ".ss.streaming") && len(x.Body.List) > 0 {
				if r, ok := x.Body.List[len(x.Body.List)-1].(*ast.ReturnStmt); ok && len(r.Results) == 1 && c11Sel(r.Results[0]) == "false" {
					found = true
				}
			}
		}
		return true
	})
	return found
}

// c11PoolBlocks: the admission rule of the snapshot pool. For every task kind tested by
// workerPool.canSchedule (`if j.task.<Kind> {...}`) the in-progress maps (saving /
// recovering / streaming) that block it: the maps looked up by the can<X> predicate the branch
// returns (through inProgress when it is called); when a branch has several return paths the
// job is admitted if any of them admits it, so the intersection of their map sets is taken.
func c11PoolBlocks() [][2]interface{} {
	p := loadPkg(".")
	maps := func(fn string) []string {
		var walk func(fn string, depth int) []string
		walk = func(fn string, depth int) []string {
			fd := p.Func("workerPool", fn)
			var out []string
			ast.Inspect(fd.Body, func(n ast.Node) bool {
				switch x := n.(type) {
				case *ast.IndexExpr:
					sel := c11Sel(x.X)
					for _, m := range []string{"saving", "recovering", "streaming"} {
						if strings.HasSuffix(sel, "."+m) {
							out = append(out, m)
						}
					}
				case *ast.CallExpr:
					if strings.HasSuffix(c11Sel(x.Fun), ".inProgress") && depth < 3 {
						out = append(out, walk("inProgress", depth+1)...)
					}
				}
				return true
			})
			return out
		}
		return walk(fn, 0)
	}
	fd := p.Func("workerPool", "canSchedule")
	var res [][2]interface{}
	var visit func(st ast.Stmt)
	visit = func(st ast.Stmt) {
		ifs, ok := st.(*ast.IfStmt)
		if !ok {
			return
		}
		cond := c11Sel(ifs.Cond)
		if strings.HasPrefix(cond, "j.task.") {
			kind := strings.TrimPrefix(cond, "j.task.")
			var sets [][]string
			ast.Inspect(ifs.Body, func(n ast.Node) bool {
				if r, ok := n.(*ast.ReturnStmt); ok && len(r.Results) == 1 {
					if c, ok := r.Results[0].(*ast.CallExpr); ok {
						name := c11Sel(c.Fun)
						if i := strings.LastIndex(name, "."); i >= 0 && strings.HasPrefix(name[i+1:], "can") {
							sets = append(sets, maps(name[i+1:]))
						} else {
							sets = append(sets, nil)
						}
					} else {
						sets = append(sets, nil)
					}
				}
				return true
			})
			if len(sets) == 0 {
				panic("canSchedule: branch " + kind + " has no return")
			}
			var inter []string
			for _, m := range []string{"saving", "recovering", "streaming"} {
				all := true
				for _, set := range sets {
					has := false
					for _, x := range set {
						if x == m {
							has = true
						}
					}
					all = all && has
				}
				if all {
					inter = append(inter, m)
				}
			}
			res = append(res, [2]interface{}{kind, inter})
		}
		if ifs.Else != nil {
			visit(ifs.Else)
		}
	}
	for _, st := range fd.Body.List {
		visit(st)
	}
	if len(res) == 0 {
		panic("canSchedule: no task kind branches found")
	}
	return res
}

// c11BookkeepingAtomic: in every method of rsm.StateMachine that calls the user Update
// (<s>.sm.Update / <s>.sm.BatchedUpdate) the applied-index bookkeeping that follows
// (setApplied / setOnDiskIndex, deferred or not) runs in the critical section of
// StateMachine.mu in which Update was called: the mutex is not released in between.
func c11BookkeepingAtomic() bool {
	p := loadPkg("internal/rsm")
	found := 0
	ok := true
	for _, f := range p.Files {
		for _, d := range f.Decls {
			fd, isF := d.(*ast.FuncDecl)
			if !isF || fd.Body == nil {
				continue
			}
			t, r := c11Recv(fd)
			if t != "StateMachine" {
				continue
			}
			sec, cur, uSec := 0, 0, -1
			var uPos token.Pos
			var after []int
			deferred := 0
			ast.Inspect(fd.Body, func(n ast.Node) bool {
				switch x := n.(type) {
				case *ast.DeferStmt:
					name := c11Sel(x.Call.Fun)
					if name == r+".setApplied" || name == r+".setOnDiskIndex" {
						deferred++
					}
					return false
				case *ast.CallExpr:
					name := c11Sel(x.Fun)
					switch name {
					case r + ".mu.Lock", r + ".mu.RLock":
						sec++
						cur = sec
					case r + ".mu.Unlock", r + ".mu.RUnlock":
						cur = 0
					case r + ".sm.Update", r + ".sm.BatchedUpdate":
						uSec, uPos = cur, x.Pos()
					case r + ".setApplied", r + ".setOnDiskIndex":
						if uSec >= 0 && x.Pos() > uPos {
							after = append(after, cur)
						}
					}
				}
				return true
			})
			if uSec < 0 {
				continue
			}
			found++
			if uSec == 0 {
				ok = false
			}
			for _, a := range after {
				if a != uSec {
					ok = false
				}
			}
			// deferred bookkeeping runs when the function returns: the section then current
			if deferred > 0 && cur != uSec {
				ok = false
			}
			if deferred == 0 && len(after) == 0 {
				ok = false
			}
		}
	}
	if found == 0 {
		panic("no method of rsm.StateMachine calls the user Update")
	}
	return ok
}

// c11ReadyToStreamGuard: rsm.StateMachine.ReadyToStream() answers, for an on-disk state
// machine, exactly `<s>.GetLastApplied() >= <s>.onDiskInitIndex` (its last return statement):
// no stream while the replica is still catching up with its own on-disk state.
func c11ReadyToStreamGuard() bool {
	p := loadPkg("internal/rsm")
	fd := p.Func("StateMachine", "ReadyToStream")
	_, r := c11Recv(fd)
	if len(fd.Body.List) == 0 {
		return false
	}
	ret, ok := fd.Body.List[len(fd.Body.List)-1].(*ast.ReturnStmt)
	if !ok || len(ret.Results) != 1 {
		return false
	}
	be, ok := ret.Results[0].(*ast.BinaryExpr)
	if !ok || be.Op != token.GEQ {
		return false
	}
	c, ok := be.X.(*ast.CallExpr)
	return ok && c11Sel(c.Fun) == r+".GetLastApplied" && c11Sel(be.Y) == r+".onDiskInitIndex"
}

// c11CloseChecksDestroyed: closeWorker.handle returns without calling <node>.destroy() when
// <node>.destroyed() (DestroyedC already closed): a node that reaches the close pool twice is
// closed once.
func c11CloseChecksDestroyed() bool {
	p := loadPkg(".")
	fd := p.Func("closeWorker", "handle")
	var guard, destroy token.Pos
	ast.Inspect(fd.Body, func(n ast.Node) bool {
		switch x := n.(type) {
		case *ast.IfStmt:
			if c, ok := x.Cond.(*ast.CallExpr); ok && strings.HasSuffix(c11Sel(c.Fun), ".destroyed") && c11Terminates(x.Body) && guard == 0 {
				guard = x.Pos()
			}
		case *ast.CallExpr:
			if strings.HasSuffix(c11Sel(x.Fun), ".destroy") && destroy == 0 {
				destroy = x.Pos()
			}
		}
		return true
	})
	if destroy == 0 {
		panic("closeWorker.handle: no destroy() call")
	}
	return guard != 0 && guard < destroy
}

func init() {
	str := func(s string) string { return fmt.Sprintf("%q%%string", s) }
	register(&Unit{Name: "C11", Imports: "From Coq Require Import Bool.", Facts: []Fact{
		{Name: "lock_table", Gen: func() string {
			rows := c11LockTable()
			if len(rows) == 0 {
				panic("empty lock table")
			}
			var b strings.Builder
			b.WriteString("(* lock table of internal/rsm: one row per path from an exported method of\n" +
				"   rsm.StateMachine (root) to a user state machine method.\n" +
				"   (root, user method, (StateMachine.mu, NativeSM.mu) held at the call: 0 none 1 RLock 2 Lock,\n" +
				"    (aborted tested, destroyed tested), (concurrent?, on-disk?): 0 any 1 no 2 yes,\n" +
				"    critical-section ids of the two mutexes within the root: 0 not held, equal ids = one section).\n" +
				"   The pseudo method SetDestroyed is the write of the destroyed flag. *)\n")
			b.WriteString("Definition lock_table : list (string * string * (N * N) * (bool * bool) * (N * N) * (N * N)) :=\n  [")
			for i, r := range rows {
				if i > 0 {
					b.WriteString(";\n   ")
				}
				fmt.Fprintf(&b, "(* %s *)\n   (%s, %s, (%d, %d), (%v, %v), (%d, %d), (%d, %d))", r.path, str(r.root), str(r.meth),
					r.smu, r.dmu, r.chkAborted, r.chkDes, r.conc, r.disk, r.ssec, r.dsec)
			}
			b.WriteString("].\n")
			return b.String()
		}},
		{Name: "adapter_table", Gen: func() string {
			m := c11Adapters(loadPkg("internal/rsm"))
			var ks []string
			for k := range m {
				ks = append(ks, k)
			}
			sort.Strings(ks)
			var b strings.Builder
			b.WriteString("(* adapter.go: IStateMachine adapter method -> statemachine interface method *)\n")
			b.WriteString("Definition adapter_table : list (string * string) :=\n  [")
			for i, k := range ks {
				if i > 0 {
					b.WriteString("; ")
				}
				fmt.Fprintf(&b, "(%s, %s)", str(k), str(m[k]))
			}
			b.WriteString("].\n")
			return b.String()
		}},
		{Name: "engine_load_inside_foreach", Gen: func() string {
			return "(* engine.loadBucketNodes (step/commit/apply workers): n.loaded() runs inside the forEachShard callback, i.e. under NodeHost.mu.RLock *)\n" +
				defBool("engine_load_inside_foreach", c11LoadInsideForEach("engine", "loadBucketNodes"))
		}},
		{Name: "pool_load_inside_foreach", Gen: func() string {
			return "(* workerPool.loadNodes (snapshot worker pool): same question *)\n" +
				defBool("pool_load_inside_foreach", c11LoadInsideForEach("workerPool", "loadNodes"))
		}},
		{Name: "pool_rechecks_before_schedule", Gen: func() string {
			return "(* workerPool.workerPoolMain calls p.loadNodes() directly before every p.schedule() *)\n" +
				defBool("pool_rechecks_before_schedule", c11PoolRechecks())
		}},
		{Name: "pool_stops_workers_before_unload", Gen: func() string {
			return "(* workerPool.workerPoolMain on shutdown: workerStopper.Stop() before unloadNodes() *)\n" +
				defBool("pool_stops_workers_before_unload", c11PoolStopOrder())
		}},
		{Name: "sched_checks_node_loaded", Gen: func() string {
			return "(* workerPool.scheduleWorker drops a pending job whose shard is missing from the pool's node map and schedules on the looked-up node *)\n" +
				defBool("sched_checks_node_loaded", c11SchedChecksLoaded())
		}},
		{Name: "can_stream_checks_streaming", Gen: func() string {
			return "(* node.canStream refuses a stream task while node.ss.streaming() *)\n" +
				defBool("can_stream_checks_streaming", c11CanStreamChecksFlag())
		}},
		{Name: "pool_blocks", Gen: func() string {
			rows := c11PoolBlocks()
			var b strings.Builder
			b.WriteString("(* workerPool.canSchedule: task kind -> in-progress maps of the shard that keep the job waiting *)\n")
			b.WriteString("Definition pool_blocks : list (string * list string) :=\n  [")
			for i, r := range rows {
				if i > 0 {
					b.WriteString(";\n   ")
				}
				var ms []string
				for _, m := range r[1].([]string) {
					ms = append(ms, str(m))
				}
				fmt.Fprintf(&b, "(%s, [%s])", str(r[0].(string)), strings.Join(ms, "; "))
			}
			b.WriteString("].\n")
			return b.String()
		}},
		{Name: "apply_bookkeeping_in_update_section", Gen: func() string {
			return "(* rsm.StateMachine update/handleBatch: setApplied/setOnDiskIndex run in the critical section of StateMachine.mu in which the user Update was called *)\n" +
				defBool("apply_bookkeeping_in_update_section", c11BookkeepingAtomic())
		}},
		{Name: "ready_to_stream_checks_applied", Gen: func() string {
			return "(* rsm.StateMachine.ReadyToStream: on-disk: GetLastApplied() >= onDiskInitIndex, nothing else *)\n" +
				defBool("ready_to_stream_checks_applied", c11ReadyToStreamGuard())
		}},
		{Name: "close_worker_checks_destroyed", Gen: func() string {
			return "(* closeWorker.handle skips a node whose state machine is already destroyed *)\n" +
				defBool("close_worker_checks_destroyed", c11CloseChecksDestroyed())
		}},
		{Name: "apply_checks_stopped", Gen: func() string {
			return "(* engine.processApplies tests node.stopped() before node.handleTask *)\n" +
				defBool("apply_checks_stopped", c11ChecksStopped("engine", "processApplies", "handleTask"))
		}},
	}})
}
