package main

import (
	"fmt"
	"go/ast"
	"math/big"
)

// keyValueInFunc returns the value of `key: <const expr>` inside a composite
// literal of function fn.
func keyValueInFunc(p *Pkg, fn *ast.FuncDecl, key string) *big.Int {
	var out *big.Int
	ast.Inspect(fn.Body, func(n ast.Node) bool {
		if kv, ok := n.(*ast.KeyValueExpr); ok {
			if id, ok := kv.Key.(*ast.Ident); ok && id.Name == key {
				out = p.Eval(kv.Value, 0)
			}
		}
		return true
	})
	if out == nil {
		panic(fmt.Sprintf("%s not set in %s", key, fn.Name.Name))
	}
	return out
}

// arrayElem0 returns element 0 of `var name = [k]byte{a, b}` provided all
// elements are equal (the key headers are {x, x}).
func arrayElems(p *Pkg, name string) *big.Int {
	e, _, ok := p.valueSpec(name)
	if !ok {
		panic("var " + name + " not found")
	}
	cl, ok := e.(*ast.CompositeLit)
	if !ok || len(cl.Elts) == 0 {
		panic("var " + name + " is not a composite literal")
	}
	var vs []*big.Int
	for _, el := range cl.Elts {
		vs = append(vs, p.Eval(el, 0))
	}
	return Unanimous(name, vs, 2)
}

func init() {
	hdr := func(coqName, goName string) Fact {
		return NFact(coqName, func() *big.Int { return arrayElems(loadPkg("internal/logdb"), goName) })
	}
	register(&Unit{Name: "C09", Facts: []Fact{
		NFact("c09_batch_size", func() *big.Int {
			p := loadPkg("internal/settings")
			return keyValueInFunc(p, p.Func("", "getDefaultHardSettings"), "LogDBEntryBatchSize")
		}),
		NFact("c09_entry_non_cmd_fields_size", func() *big.Int { return loadPkg("internal/settings").Const("EntryNonCmdFieldsSize") }),
		NFact("c09_tan_index_block_size", func() *big.Int { return loadPkg("internal/tan").Const("indexBlockSize") }),
		NFact("c09_tan_state_flag", func() *big.Int { return loadPkg("internal/tan").Const("stateFlag") }),
		NFact("c09_tan_snapshot_flag", func() *big.Int { return loadPkg("internal/tan").Const("snapshotFlag") }),
		NFact("c09_tan_compaction_flag", func() *big.Int { return loadPkg("internal/tan").Const("compactionFlag") }),
		// the first bytes of the LogDB keys: they order the key classes inside one Pebble instance
		hdr("c09_tag_entry", "entryKeyHeader"),
		hdr("c09_tag_state", "persistentStateKeyHeader"),
		hdr("c09_tag_max_index", "maxIndexKeyHeader"),
		hdr("c09_tag_node_info", "nodeInfoKeyHeader"),
		hdr("c09_tag_snapshot", "snapshotKeyHeader"),
		hdr("c09_tag_bootstrap", "bootstrapKeyHeader"),
		hdr("c09_tag_entry_batch", "entryBatchKeyHeader"),
	}})
}
