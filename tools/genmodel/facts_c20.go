package main

import (
	"bytes"
	"fmt"
	"go/ast"
	"go/printer"
	"go/token"
	"math/big"
	"strconv"
	"strings"
)

// C20: facts about tools/import.go (order and error handling of the steps of
// ImportSnapshot, the membership/flag literals of getProcessedSnapshotRecord),
// internal/logdb/db.go importSnapshot (bootstrap / state literals) and the v2
// snapshot file geometry used by GetV2PayloadChecksum.

// the calls of ImportSnapshot the model's import_prog is made of
var c20Steps = []string{
	"checkImportSettings", "getSnapshotFilepath", "getSnapshotRecord",
	"isCompleteSnapshotImage", "hasAllExternalFiles", "checkMembers", "NewEnv", "CreateNodeHostDir",
	"getLogDB", "CheckNodeHostDir", "cleanupSnapshotDir", "CreateSnapshotDir",
	"CreateTempDir", "getProcessedSnapshotRecord", "copySnapshot",
	"FinalizeSnapshot", "ImportSnapshot",
}

func c20CalleeName(c *ast.CallExpr) string {
	switch f := c.Fun.(type) {
	case *ast.Ident:
		return f.Name
	case *ast.SelectorExpr:
		return f.Sel.Name
	}
	return ""
}

func c20IsErrNotNil(e ast.Expr) bool {
	be, ok := e.(*ast.BinaryExpr)
	if !ok || be.Op != token.NEQ {
		return false
	}
	x, ok1 := be.X.(*ast.Ident)
	y, ok2 := be.Y.(*ast.Ident)
	return ok1 && ok2 && x.Name == "err" && y.Name == "nil"
}

// body ends the function with a non-nil error: `return err` / `return ErrX`
func c20ReturnsError(b *ast.BlockStmt) bool {
	if b == nil || len(b.List) == 0 {
		return false
	}
	rs, ok := b.List[len(b.List)-1].(*ast.ReturnStmt)
	if !ok || len(rs.Results) != 1 {
		return false
	}
	id, ok := rs.Results[0].(*ast.Ident)
	return ok && (id.Name == "err" || strings.HasPrefix(id.Name, "Err"))
}

type c20Info struct {
	order   []string        // interesting calls in execution (= source) order
	guarded map[string]bool // a failure of the call ends ImportSnapshot with an error
	inThen  map[string]bool // call sits in the then-branch of `if exist`
	inElse  map[string]bool
}

var c20Cache *c20Info

func c20Analyse() *c20Info {
	if c20Cache != nil {
		return c20Cache
	}
	p := loadPkg("tools")
	fn := p.Func("", "ImportSnapshot")
	want := map[string]bool{}
	for _, s := range c20Steps {
		want[s] = true
	}
	info := &c20Info{guarded: map[string]bool{}, inThen: map[string]bool{}, inElse: map[string]bool{}}
	callsIn := func(n ast.Node) []string {
		var out []string
		if n == nil {
			return out
		}
		ast.Inspect(n, func(x ast.Node) bool {
			if _, ok := x.(*ast.FuncLit); ok {
				return false // deferred closures / helper closures are not steps
			}
			if c, ok := x.(*ast.CallExpr); ok {
				if nm := c20CalleeName(c); want[nm] {
					out = append(out, nm)
				}
			}
			return true
		})
		return out
	}
	var walk func(list []ast.Stmt, branch string)
	walk = func(list []ast.Stmt, branch string) {
		for i, st := range list {
			mark := func(names []string, guarded bool) {
				for _, nm := range names {
					info.order = append(info.order, nm)
					if guarded {
						info.guarded[nm] = true
					}
					if branch == "then" {
						info.inThen[nm] = true
					}
					if branch == "else" {
						info.inElse[nm] = true
					}
				}
			}
			switch s := st.(type) {
			case *ast.IfStmt:
				// if [x,] err := f(...); err != nil { return err }
				if s.Init != nil {
					names := callsIn(s.Init)
					mark(names, c20IsErrNotNil(s.Cond) && c20ReturnsError(s.Body))
					continue
				}
				// if exist { ... } else { ... }
				if id, ok := s.Cond.(*ast.Ident); ok && id.Name == "exist" {
					walk(s.Body.List, "then")
					if eb, ok := s.Else.(*ast.BlockStmt); ok {
						walk(eb.List, "else")
					}
					continue
				}
			case *ast.AssignStmt:
				names := callsIn(s)
				if len(names) == 0 {
					continue
				}
				// x, err := f(...) followed by `if err != nil { return err }`
				g := false
				hasErr := false
				for _, l := range s.Lhs {
					if id, ok := l.(*ast.Ident); ok && id.Name == "err" {
						hasErr = true
					}
				}
				if hasErr && i+1 < len(list) {
					if nx, ok := list[i+1].(*ast.IfStmt); ok && nx.Init == nil && c20IsErrNotNil(nx.Cond) && c20ReturnsError(nx.Body) {
						g = true
					}
				}
				if !hasErr {
					g = true // a pure computation (getProcessedSnapshotRecord) cannot fail
				}
				// `ok, err := isCompleteSnapshotImage(...)` additionally needs `if !ok { return ErrX }`
				for _, nm := range names {
					if nm == "isCompleteSnapshotImage" || nm == "hasAllExternalFiles" {
						g2 := false
						if i+2 < len(list) {
							if nx, ok := list[i+2].(*ast.IfStmt); ok && nx.Init == nil {
								if u, ok := nx.Cond.(*ast.UnaryExpr); ok && u.Op == token.NOT {
									if id, ok := u.X.(*ast.Ident); ok && id.Name == "ok" && c20ReturnsError(nx.Body) {
										g2 = true
									}
								}
							}
						}
						g = g && g2
					}
				}
				mark(names, g)
				continue
			case *ast.ReturnStmt:
				mark(callsIn(s), true)
				continue
			case *ast.DeferStmt:
				continue
			}
			// any other statement shape containing a step: recorded, not guarded
			mark(callsIn(st), false)
		}
	}
	walk(fn.Body.List, "")
	c20Cache = info
	return info
}

func c20Pos(name string) *big.Int {
	info := c20Analyse()
	pos := -1
	for i, n := range info.order {
		if n == name {
			if pos >= 0 {
				panic("ImportSnapshot: step " + name + " occurs twice")
			}
			pos = i
		}
	}
	if pos < 0 {
		panic("ImportSnapshot: step " + name + " not found")
	}
	return big.NewInt(int64(pos))
}

func boolFact(name string, f func() bool) Fact {
	return Fact{Name: name, Gen: func() string { return defBool(name, f()) }}
}

// keyed fields of the first composite literal of type pkg.typ inside fn
func c20LitFields(p *Pkg, fn *ast.FuncDecl, typ string) map[string]ast.Expr {
	var res map[string]ast.Expr
	ast.Inspect(fn.Body, func(n ast.Node) bool {
		cl, ok := n.(*ast.CompositeLit)
		if !ok || res != nil {
			return true
		}
		name := ""
		switch t := cl.Type.(type) {
		case *ast.SelectorExpr:
			name = t.Sel.Name
		case *ast.Ident:
			name = t.Name
		}
		if name != typ {
			return true
		}
		res = map[string]ast.Expr{}
		for _, el := range cl.Elts {
			if kv, ok := el.(*ast.KeyValueExpr); ok {
				if k, ok := kv.Key.(*ast.Ident); ok {
					res[k.Name] = kv.Value
				}
			}
		}
		return true
	})
	if res == nil {
		panic(fmt.Sprintf("%s: no %s literal found", fn.Name.Name, typ))
	}
	return res
}

// c20PassesDirs: fn obtains `d, w[, err] := <src>(...)` and every call to one of
// the callees passes `[]string{d}, []string{w}` as its last two arguments
func c20PassesDirs(p *Pkg, fn *ast.FuncDecl, src string, callees map[string]bool) bool {
	d, w := "", ""
	ast.Inspect(fn.Body, func(n ast.Node) bool {
		as, ok := n.(*ast.AssignStmt)
		if !ok || len(as.Rhs) != 1 || len(as.Lhs) < 2 {
			return true
		}
		if c, ok := as.Rhs[0].(*ast.CallExpr); ok && c20CalleeName(c) == src {
			d, w = c20ExprString(as.Lhs[0]), c20ExprString(as.Lhs[1])
		}
		return true
	})
	if d == "" || w == "" || d == "_" || w == "_" || d == w {
		return false
	}
	one := func(e ast.Expr) string {
		cl, ok := e.(*ast.CompositeLit)
		if !ok || len(cl.Elts) != 1 || exprText(p, cl.Type) != "[]string" {
			return ""
		}
		return c20ExprString(cl.Elts[0])
	}
	calls, good := 0, true
	ast.Inspect(fn.Body, func(n ast.Node) bool {
		c, ok := n.(*ast.CallExpr)
		if !ok || !callees[c20CalleeName(c)] {
			return true
		}
		calls++
		k := len(c.Args)
		if k < 2 || one(c.Args[k-2]) != d || one(c.Args[k-1]) != w {
			good = false
		}
		return true
	})
	return calls > 0 && good
}

// source text of an expression
func exprText(p *Pkg, e ast.Expr) string {
	var b bytes.Buffer
	if err := printer.Fprint(&b, p.Fset, e); err != nil {
		panic(err)
	}
	return b.String()
}

func c20ExprString(e ast.Expr) string {
	switch x := e.(type) {
	case *ast.Ident:
		return x.Name
	case *ast.SelectorExpr:
		return c20ExprString(x.X) + "." + x.Sel.Name
	}
	return "?"
}

// strConstBytes evaluates a string constant / variable initialised with a string literal
func c20StrConst(p *Pkg, name string) string {
	e, _, ok := p.valueSpec(name)
	if !ok {
		panic("string constant " + name + " not found")
	}
	bl, ok := e.(*ast.BasicLit)
	if !ok || bl.Kind != token.STRING {
		panic(name + " is not a string literal")
	}
	v, err := strconv.Unquote(bl.Value)
	if err != nil {
		panic(err)
	}
	return v
}

func bytesFact(name string, f func() string) Fact {
	return Fact{Name: name, Gen: func() string {
		v := f()
		parts := make([]string, len(v))
		for i := 0; i < len(v); i++ {
			parts[i] = fmt.Sprint(v[i])
		}
		return fmt.Sprintf("Definition %s : list N := [%s]. (* %q *)\n", name, strings.Join(parts, "; "), v)
	}}
}

func init() {
	var facts []Fact
	for _, s := range c20Steps {
		s := s
		facts = append(facts, NFact("pos_"+s, func() *big.Int { return c20Pos(s) }))
	}
	for _, s := range c20Steps {
		s := s
		facts = append(facts, boolFact("guard_"+s, func() bool {
			c20Pos(s)
			return c20Analyse().guarded[s]
		}))
	}
	facts = append(facts,
		boolFact("cleanup_when_dir_exists", func() bool {
			i := c20Analyse()
			return i.inThen["cleanupSnapshotDir"] && i.inElse["CreateSnapshotDir"] &&
				!i.inElse["cleanupSnapshotDir"] && !i.inThen["CreateSnapshotDir"]
		}),
		// getProcessedSnapshotRecord: the literal
		boolFact("processed_imported_flag", func() bool {
			p := loadPkg("tools")
			f := c20LitFields(p, p.Func("", "getProcessedSnapshotRecord"), "Snapshot")
			v, ok := f["Imported"]
			return ok && c20ExprString(v) == "true"
		}),
		boolFact("processed_ccid_is_index", func() bool {
			p := loadPkg("tools")
			f := c20LitFields(p, p.Func("", "getProcessedSnapshotRecord"), "Membership")
			v, ok := f["ConfigChangeId"]
			return ok && c20ExprString(v) == "old.Index"
		}),
		// db.importSnapshot: Bootstrap{Join: true, Type: ss.Type}, State{Term: ss.Term, Commit: ss.Index}
		boolFact("logdb_bootstrap_join", func() bool {
			p := loadPkg("internal/logdb")
			f := c20LitFields(p, p.Func("db", "importSnapshot"), "Bootstrap")
			v, ok := f["Join"]
			t, ok2 := f["Type"]
			_, hasAddr := f["Addresses"]
			return ok && c20ExprString(v) == "true" && ok2 && c20ExprString(t) == "ss.Type" && !hasAddr
		}),
		boolFact("logdb_state_is_term_commit_index", func() bool {
			p := loadPkg("internal/logdb")
			f := c20LitFields(p, p.Func("db", "importSnapshot"), "State")
			a, ok := f["Term"]
			b, ok2 := f["Commit"]
			_, hasVote := f["Vote"]
			return ok && ok2 && c20ExprString(a) == "ss.Term" && c20ExprString(b) == "ss.Index" && !hasVote
		}),
		boolFact("tan_bootstrap_join", func() bool {
			p := loadPkg("internal/tan")
			f := c20LitFields(p, p.Func("LogDB", "ImportSnapshot"), "Bootstrap")
			v, ok := f["Join"]
			t, ok2 := f["Type"]
			_, hasAddr := f["Addresses"]
			return ok && c20ExprString(v) == "true" && ok2 && c20ExprString(t) == "snapshot.Type" && !hasAddr
		}),
		bytesFact("snapshot_file_suffix", func() string { return c20StrConst(loadPkg("internal/server"), "SnapshotFileSuffix") }),
		bytesFact("metadata_filename", func() string { return c20StrConst(loadPkg("internal/server"), "MetadataFilename") }),
		// internal/rsm/statemachine.go: on the initial recovery an imported record is
		// always loaded (recoverRequired) and exempt from the on-disk index sanity
		// panics (checkRecoverOnDiskSM)
		boolFact("recover_required_imported_first", func() bool {
			p := loadPkg("internal/rsm")
			fn := p.Func("StateMachine", "recoverRequired")
			ok := false
			ast.Inspect(fn.Body, func(n ast.Node) bool {
				outer, isIf := n.(*ast.IfStmt)
				if !isIf || c20ExprString(outer.Cond) != "init" || len(outer.Body.List) == 0 {
					return true
				}
				inner, isIf := outer.Body.List[0].(*ast.IfStmt)
				if !isIf || c20ExprString(inner.Cond) != "ss.Imported" || len(inner.Body.List) != 1 {
					return true
				}
				if rs, isRet := inner.Body.List[0].(*ast.ReturnStmt); isRet && len(rs.Results) == 1 && c20ExprString(rs.Results[0]) == "true" {
					ok = true
				}
				return true
			})
			return ok
		}),
		// isShrunkSnapshot: the only snapshots for which the image is not inspected
		// (snapshotter.Shrunk) are those of a state machine that is not on-disk and
		// witness / dummy ones - in particular an Imported record is inspected
		boolFact("shrunk_check_inspects_imported", func() bool {
			p := loadPkg("internal/rsm")
			fn := p.Func("StateMachine", "isShrunkSnapshot")
			var conds []string
			for _, st := range fn.Body.List {
				if is, ok := st.(*ast.IfStmt); ok && is.Init == nil {
					conds = append(conds, exprText(p, is.Cond))
					continue
				}
				// the first statement that is not an early-return if must be the inspection
				found := false
				ast.Inspect(st, func(n ast.Node) bool {
					if c, ok := n.(*ast.CallExpr); ok && c20CalleeName(c) == "Shrunk" {
						found = true
					}
					return true
				})
				if !found {
					return false
				}
				break
			}
			return len(conds) == 2 && conds[0] == "!s.OnDiskStateMachine()" && conds[1] == "ss.Witness || ss.Dummy"
		}),
		boolFact("check_recover_exempts_imported", func() bool {
			p := loadPkg("internal/rsm")
			fn := p.Func("StateMachine", "checkRecoverOnDiskSM")
			for _, st := range fn.Body.List {
				is, isIf := st.(*ast.IfStmt)
				if !isIf {
					continue
				}
				be, isBin := is.Cond.(*ast.BinaryExpr)
				if !isBin || be.Op != token.LAND {
					return false
				}
				if c20ExprString(be.X) == "ss.Imported" && c20ExprString(be.Y) == "init" && len(is.Body.List) == 1 {
					if rs, isRet := is.Body.List[0].(*ast.ReturnStmt); isRet && len(rs.Results) == 0 {
						return true
					}
				}
				return false // the first if statement must be the exemption
			}
			return false
		}),
		// the log store is opened with (data dir, low latency dir) in this order, both
		// by the tool (tools.getLogDB) and by NewNodeHost (NodeHost.createLogDB)
		boolFact("getlogdb_passes_wal_dirs", func() bool {
			p := loadPkg("tools")
			return c20PassesDirs(p, p.Func("", "getLogDB"), "GetLogDBDirs", map[string]bool{"Create": true, "NewDefaultLogDB": true})
		}),
		boolFact("nodehost_passes_wal_dirs", func() bool {
			p := loadPkg(".")
			return c20PassesDirs(p, p.Func("NodeHost", "createLogDB"), "CreateNodeHostDir", map[string]bool{"Create": true})
		}),
		// tan: nodeIndex.removeAll (ImportSnapshot, RemoveNodeData) forgets everything
		// about the replica's entries, the compaction point included
		boolFact("tan_remove_all_resets_compaction", func() bool {
			p := loadPkg("internal/tan")
			fn := p.Func("nodeIndex", "removeAll")
			reset := map[string]bool{}
			for _, st := range fn.Body.List {
				as, ok := st.(*ast.AssignStmt)
				if !ok || len(as.Lhs) != 1 || len(as.Rhs) != 1 {
					return false
				}
				cl, ok := as.Rhs[0].(*ast.CompositeLit)
				if !ok || len(cl.Elts) != 0 {
					return false // anything carried over
				}
				reset[c20ExprString(as.Lhs[0])] = true
			}
			return reset["n.entries"] && reset["n.currEntries"]
		}),
		// v2 snapshot file geometry (internal/rsm/rwv.go)
		NFact("ss_header_size", func() *big.Int { return loadPkg("internal/settings").Const("SnapshotHeaderSize") }),
		NFact("ss_block_size", func() *big.Int { return loadPkg("internal/rsm").Const("blockSize") }),
		NFact("ss_tail_size", func() *big.Int { return loadPkg("internal/rsm").Const("tailSize") }),
		NFact("ss_checksum_size", func() *big.Int { return loadPkg("internal/rsm").Const("checksumSize") }),
		NFact("rsm_header_size", func() *big.Int { return loadPkg("internal/rsm").Const("HeaderSize") }),
		// state machine types
		NFact("sm_unknown", func() *big.Int { return loadPkg("raftpb").Const("UnknownStateMachine") }),
		NFact("sm_regular", func() *big.Int { return loadPkg("raftpb").Const("RegularStateMachine") }),
		NFact("sm_concurrent", func() *big.Int { return loadPkg("raftpb").Const("ConcurrentStateMachine") }),
		NFact("sm_ondisk", func() *big.Int { return loadPkg("raftpb").Const("OnDiskStateMachine") }),
	)
	register(&Unit{Name: "C20", Facts: facts})
}
