module verif/genmodel

go 1.19
