package main

import (
	"fmt"
	"go/ast"
	"math/big"
)

// c05CompositeField evaluates field `field` of the first composite literal returned
// by function fn of package p (e.g. getDefaultHardSettings() hard{...}).
func c05CompositeField(p *Pkg, fn, field string) *big.Int {
	fd := p.Func("", fn)
	var out *big.Int
	ast.Inspect(fd.Body, func(n ast.Node) bool {
		cl, ok := n.(*ast.CompositeLit)
		if !ok || out != nil {
			return true
		}
		for _, el := range cl.Elts {
			kv, ok := el.(*ast.KeyValueExpr)
			if !ok {
				continue
			}
			if id, ok := kv.Key.(*ast.Ident); ok && id.Name == field {
				out = p.Eval(kv.Value, 0)
			}
		}
		return true
	})
	if out == nil {
		panic(fmt.Sprintf("field %s not found in %s()", field, fn))
	}
	return out
}

// c05VarInitIsSelector checks that package variable `name` is initialised with the
// selector expression `want` (e.g. settings.Hard.LRUMaxSessionCount).
func c05VarInitIsSelector(p *Pkg, name, want string) {
	e, _, ok := p.valueSpec(name)
	if !ok {
		panic("variable " + name + " not found")
	}
	var render func(e ast.Expr) string
	render = func(e ast.Expr) string {
		switch x := e.(type) {
		case *ast.Ident:
			return x.Name
		case *ast.SelectorExpr:
			return render(x.X) + "." + x.Sel.Name
		}
		return "?"
	}
	if got := render(e); got != want {
		panic(fmt.Sprintf("%s is initialised with %s, expected %s", name, got, want))
	}
}

func init() {
	register(&Unit{Name: "C05", Facts: []Fact{
		// capacity of the session LRU: rsm.LRUMaxSessionCount = settings.Hard.LRUMaxSessionCount,
		// default from getDefaultHardSettings()
		NFact("lru_max_session_count", func() *big.Int {
			c05VarInitIsSelector(loadPkg("internal/rsm"), "LRUMaxSessionCount", "settings.Hard.LRUMaxSessionCount")
			return c05CompositeField(loadPkg("internal/settings"), "getDefaultHardSettings", "LRUMaxSessionCount")
		}),
		// the special client / series ids of client/session.pb.go that raftpb's
		// entry classification (IsSessionManaged, IsNoOPSession, IsNewSessionRequest,
		// IsEndOfSessionRequest) compares against
		NFact("not_session_managed_client_id", func() *big.Int { return loadPkg("client").Const("NotSessionManagedClientID") }),
		NFact("noop_series_id", func() *big.Int { return loadPkg("client").Const("NoOPSeriesID") }),
		NFact("series_id_for_register", func() *big.Int { return loadPkg("client").Const("SeriesIDForRegister") }),
		NFact("series_id_for_unregister", func() *big.Int { return loadPkg("client").Const("SeriesIDForUnregister") }),
		NFact("series_id_first_proposal", func() *big.Int { return loadPkg("client").Const("SeriesIDFirstProposal") }),
	}})
}
