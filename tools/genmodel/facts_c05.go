package main

import (
	"fmt"
	"go/ast"
	"go/printer"
	"math/big"
	"sort"
	"strings"
)

// c05CompositeField evaluates field `field` of the first composite literal returned
// by function fn of package p (e.g. getDefaultHardSettings() hard{...}).
func c05CompositeField(p *Pkg, fn, field string) *big.Int {
	fd := p.Func("", fn)
	var out *big.Int
	ast.Inspect(fd.Body, func(n ast.Node) bool {
		cl, ok := n.(*ast.CompositeLit)
		if !ok || out != nil {
			return true
		}
		for _, el := range cl.Elts {
			kv, ok := el.(*ast.KeyValueExpr)
			if !ok {
				continue
			}
			if id, ok := kv.Key.(*ast.Ident); ok && id.Name == field {
				out = p.Eval(kv.Value, 0)
			}
		}
		return true
	})
	if out == nil {
		panic(fmt.Sprintf("field %s not found in %s()", field, fn))
	}
	return out
}

// c05VarInitIsSelector checks that package variable `name` is initialised with the
// selector expression `want` (e.g. settings.Hard.LRUMaxSessionCount).
func c05VarInitIsSelector(p *Pkg, name, want string) {
	e, _, ok := p.valueSpec(name)
	if !ok {
		panic("variable " + name + " not found")
	}
	var render func(e ast.Expr) string
	render = func(e ast.Expr) string {
		switch x := e.(type) {
		case *ast.Ident:
			return x.Name
		case *ast.SelectorExpr:
			return render(x.X) + "." + x.Sel.Name
		}
		return "?"
	}
	if got := render(e); got != want {
		panic(fmt.Sprintf("%s is initialised with %s, expected %s", name, got, want))
	}
}

// c05HasCmp reports whether function recv.fn of package p contains the binary
// expression `want` (printed source form, e.g. "id <= s.RespondedUpTo").
func c05HasCmp(p *Pkg, recv, fn, want string) bool {
	fd := p.Func(recv, fn)
	found := false
	ast.Inspect(fd.Body, func(n ast.Node) bool {
		if be, ok := n.(*ast.BinaryExpr); ok {
			var b strings.Builder
			_ = printer.Fprint(&b, p.Fset, be)
			if b.String() == want {
				found = true
			}
		}
		return true
	})
	return found
}

// c05CallOrder reports whether the calls named in `want` (printed callee
// expressions, e.g. "s.prepare") occur in function recv.fn in exactly this source
// order (other calls in between are ignored; each must occur exactly once).
func c05CallOrder(p *Pkg, recv, fn string, want []string) bool {
	fd := p.Func(recv, fn)
	var got []string
	ast.Inspect(fd.Body, func(n ast.Node) bool {
		if ce, ok := n.(*ast.CallExpr); ok {
			var b strings.Builder
			_ = printer.Fprint(&b, p.Fset, ce.Fun)
			for _, w := range want {
				if b.String() == w {
					got = append(got, w)
				}
			}
		}
		return true
	})
	return strings.Join(got, ",") == strings.Join(want, ",")
}

// c05Callers lists ("Recv.name", sorted) the functions of package p that contain
// a call whose callee selector ends in one of `sels` (e.g. ".getSession").
func c05Callers(p *Pkg, sels ...string) []string {
	var out []string
	for _, f := range p.Files {
		for _, d := range f.Decls {
			fd, ok := d.(*ast.FuncDecl)
			if !ok || fd.Body == nil {
				continue
			}
			hit := false
			ast.Inspect(fd.Body, func(n ast.Node) bool {
				if ce, ok := n.(*ast.CallExpr); ok {
					var b strings.Builder
					_ = printer.Fprint(&b, p.Fset, ce.Fun)
					for _, w := range sels {
						if strings.HasSuffix(b.String(), w) {
							hit = true
						}
					}
				}
				return true
			})
			if !hit {
				continue
			}
			recv := ""
			if fd.Recv != nil && len(fd.Recv.List) > 0 {
				t := fd.Recv.List[0].Type
				if st, ok := t.(*ast.StarExpr); ok {
					t = st.X
				}
				if id, ok := t.(*ast.Ident); ok {
					recv = id.Name
				}
			}
			out = append(out, recv+"."+fd.Name.Name)
		}
	}
	sort.Strings(out)
	return out
}

func c05StringListFact(name string, f func() []string) Fact {
	return Fact{Name: name, Gen: func() string {
		var q []string
		for _, x := range f() {
			q = append(q, fmt.Sprintf("%q%%string", x))
		}
		return fmt.Sprintf("Definition %s : list string := [%s].\n", name, strings.Join(q, "; "))
	}}
}

func c05BoolFact(name string, f func() bool) Fact {
	return Fact{Name: name, Gen: func() string { return defBool(name, f()) }}
}

func init() {
	register(&Unit{Name: "C05", Facts: []Fact{
		// the comparisons the model writes as <=? / <? / =? , as they stand in the source
		c05BoolFact("src_has_responded_le", func() bool {
			return c05HasCmp(loadPkg("internal/rsm"), "Session", "hasResponded", "id <= s.RespondedUpTo")
		}),
		c05BoolFact("src_clear_to_guard_le", func() bool {
			return c05HasCmp(loadPkg("internal/rsm"), "Session", "clearTo", "to <= s.RespondedUpTo")
		}),
		c05BoolFact("src_clear_to_shortcut_eq", func() bool {
			return c05HasCmp(loadPkg("internal/rsm"), "Session", "clearTo", "to == s.RespondedUpTo+1")
		}),
		c05BoolFact("src_clear_to_loop_le", func() bool {
			return c05HasCmp(loadPkg("internal/rsm"), "Session", "clearTo", "k <= to")
		}),
		// concurrentSave = prepare under s.mu.RLock, then (lock released) sync and doSave:
		// the two steps the harness runs separately (hook VerifC05SaveStep1/2)
		c05BoolFact("src_concurrent_save_steps", func() bool {
			return c05CallOrder(loadPkg("internal/rsm"), "StateMachine", "concurrentSave",
				[]string{"s.mu.RLock", "s.mu.RUnlock", "s.prepare", "s.sync", "s.doSave"})
		}),
		// the session table is serialised while the snapshot meta is built (under the lock
		// that fixes the snapshot index), and nowhere later
		c05BoolFact("src_sessions_saved_in_meta", func() bool {
			p := loadPkg("internal/rsm")
			return c05CallOrder(p, "StateMachine", "getSSMeta", []string{"s.sessions.SaveSessions"}) &&
				c05CallOrder(p, "StateMachine", "prepare", []string{"s.getSSMeta"}) &&
				!c05CallOrder(p, "StateMachine", "doSave", []string{"s.sessions.SaveSessions"})
		}),
		// who can refresh the LRU order (OrderedCache.Get moves the entry to the front):
		// the cache lookups themselves, the session manager methods built on them, and the
		// StateMachine methods that call those - all on the apply path (update /
		// registerSession / unregisterSession) or the order-preserving save walk. A new
		// caller (e.g. an accessor used by the client API) changes these lists.
		c05StringListFact("src_lru_get_callers", func() []string {
			return c05Callers(loadPkg("internal/rsm"), ".sessions.Get", ".getSessionLocked")
		}),
		c05StringListFact("src_get_session_callers", func() []string {
			return c05Callers(loadPkg("internal/rsm"), ".getSession")
		}),
		c05StringListFact("src_session_lookup_callers", func() []string {
			return c05Callers(loadPkg("internal/rsm"), ".ClientRegistered", ".RegisterClientID", ".UnregisterClientID")
		}),
		c05StringListFact("src_session_save_callers", func() []string {
			return c05Callers(loadPkg("internal/rsm"), ".lru.save", ".lru.getHash", ".SaveSessions", ".GetSessionHash")
		}),
		c05BoolFact("src_evict_when_gt", func() bool {
			return c05HasCmp(loadPkg("internal/rsm"), "", "newLRUSession", "uint64(n) > rec.size")
		}),
		// capacity of the session LRU: rsm.LRUMaxSessionCount = settings.Hard.LRUMaxSessionCount,
		// default from getDefaultHardSettings()
		NFact("lru_max_session_count", func() *big.Int {
			c05VarInitIsSelector(loadPkg("internal/rsm"), "LRUMaxSessionCount", "settings.Hard.LRUMaxSessionCount")
			return c05CompositeField(loadPkg("internal/settings"), "getDefaultHardSettings", "LRUMaxSessionCount")
		}),
		// the special client / series ids of client/session.pb.go that raftpb's
		// entry classification (IsSessionManaged, IsNoOPSession, IsNewSessionRequest,
		// IsEndOfSessionRequest) compares against
		NFact("not_session_managed_client_id", func() *big.Int { return loadPkg("client").Const("NotSessionManagedClientID") }),
		NFact("noop_series_id", func() *big.Int { return loadPkg("client").Const("NoOPSeriesID") }),
		NFact("series_id_for_register", func() *big.Int { return loadPkg("client").Const("SeriesIDForRegister") }),
		NFact("series_id_for_unregister", func() *big.Int { return loadPkg("client").Const("SeriesIDForUnregister") }),
		NFact("series_id_first_proposal", func() *big.Int { return loadPkg("client").Const("SeriesIDFirstProposal") }),
	}})
}
