package main

import (
	"fmt"
	"go/ast"
	"go/printer"
	"strings"
)

// C08 — facts about the apply / snapshot / compaction code that Model/RsmApply.v
// is written from: the comparisons (as they stand in the source), the fields
// getSSMeta captures, and the ORDER of the calls in node.doSave,
// snapshotter.Commit and node.recover that the compaction theorem relies on
// (record committed to the log store before the compaction index is published).

func c08Print(p *Pkg, n ast.Node) string {
	var b strings.Builder
	_ = printer.Fprint(&b, p.Fset, n)
	return strings.Join(strings.Fields(b.String()), " ")
}

// c08HasExpr: does function recv.fn contain the binary/unary expression `want`?
func c08HasExpr(p *Pkg, recv, fn, want string) bool {
	fd := p.Func(recv, fn)
	found := false
	ast.Inspect(fd.Body, func(n ast.Node) bool {
		switch n.(type) {
		case *ast.BinaryExpr, *ast.UnaryExpr:
			if c08Print(p, n) == want {
				found = true
			}
		}
		return true
	})
	return found
}

// c08CallOrder: every call in `calls` (printed form of the callee, e.g.
// "n.snapshotter.Commit") occurs exactly once in recv.fn and in this order.
func c08CallOrder(p *Pkg, recv, fn string, calls ...string) bool {
	fd := p.Func(recv, fn)
	pos := map[string][]int{}
	ast.Inspect(fd.Body, func(n ast.Node) bool {
		if ce, ok := n.(*ast.CallExpr); ok {
			name := c08Print(p, ce.Fun)
			pos[name] = append(pos[name], int(ce.Pos()))
		}
		return true
	})
	last := -1
	for _, c := range calls {
		if len(pos[c]) != 1 {
			panic(fmt.Sprintf("%s.%s: call %s occurs %d times", recv, fn, c, len(pos[c])))
		}
		if pos[c][0] <= last {
			return false
		}
		last = pos[c][0]
	}
	return true
}

// c08CompositeFields: the first composite literal of type `typ` in recv.fn has
// exactly these key: value pairs among its fields.
func c08CompositeFields(p *Pkg, recv, fn, typ string, want map[string]string) bool {
	fd := p.Func(recv, fn)
	ok := false
	done := false
	ast.Inspect(fd.Body, func(n ast.Node) bool {
		cl, is := n.(*ast.CompositeLit)
		if !is || done || cl.Type == nil || c08Print(p, cl.Type) != typ {
			return true
		}
		done = true
		got := map[string]string{}
		for _, el := range cl.Elts {
			if kv, is := el.(*ast.KeyValueExpr); is {
				got[c08Print(p, kv.Key)] = c08Print(p, kv.Value)
			}
		}
		ok = true
		for k, v := range want {
			if got[k] != v {
				ok = false
			}
		}
		return true
	})
	if !done {
		panic(fmt.Sprintf("%s.%s: no composite literal of type %s", recv, fn, typ))
	}
	return ok
}

// c08IfConds: the conditions of all if statements of recv.fn, in source order
func c08IfConds(p *Pkg, recv, fn string) []string {
	fd := p.Func(recv, fn)
	var out []string
	ast.Inspect(fd.Body, func(n ast.Node) bool {
		if is, ok := n.(*ast.IfStmt); ok {
			out = append(out, c08Print(p, is.Cond))
		}
		return true
	})
	return out
}

// c08TopLevelIfInit: recv.fn has, directly in its body (not nested in another
// statement), an if statement whose init statement is `init`
func c08TopLevelIfInit(p *Pkg, recv, fn, init string) bool {
	fd := p.Func(recv, fn)
	for _, st := range fd.Body.List {
		if is, ok := st.(*ast.IfStmt); ok && is.Init != nil && c08Print(p, is.Init) == init {
			return true
		}
	}
	return false
}

func c08Bool(name string, f func() bool) Fact {
	return Fact{Name: name, Gen: func() string { return defBool(name, f()) }}
}

func init() {
	rsm := func() *Pkg { return loadPkg("internal/rsm") }
	root := func() *Pkg { return loadPkg(".") }
	pb := func() *Pkg { return loadPkg("raftpb") }
	has := func(name string, p func() *Pkg, recv, fn, want string) Fact {
		return c08Bool(name, func() bool { return c08HasExpr(p(), recv, fn, want) })
	}
	register(&Unit{Name: "C08", Facts: []Fact{
		// pb.EntriesToApply
		has("src_eta_old_le", pb, "", "EntriesToApply", "lastIndex <= applied"),
		has("src_eta_hole_gt", pb, "", "EntriesToApply", "firstIndex > applied+1"),
		has("src_eta_skip", pb, "", "EntriesToApply", "applied-firstIndex+1 < uint64(len(entries))"),
		// setApplied
		has("src_set_applied_next", rsm, "StateMachine", "setApplied", "s.index+1 != index"),
		has("src_set_applied_term", rsm, "StateMachine", "setApplied", "s.term > term"),
		// on-disk rules
		has("src_in_init_le", rsm, "StateMachine", "entryInInitDiskSM", "index <= s.onDiskInitIndex"),
		has("src_set_od_init_le", rsm, "StateMachine", "setOnDiskIndex", "first <= s.onDiskInitIndex"),
		has("src_set_od_le", rsm, "StateMachine", "setOnDiskIndex", "first <= s.onDiskIndex"),
		has("src_recover_required_init", rsm, "StateMachine", "recoverRequired", "ss.OnDiskIndex > s.onDiskInitIndex"),
		has("src_recover_required", rsm, "StateMachine", "recoverRequired", "ss.OnDiskIndex > s.onDiskIndex"),
		has("src_partial_check_init", rsm, "StateMachine", "checkPartialSnapshotApplyOnDiskSM", "ss.OnDiskIndex > s.onDiskInitIndex"),
		// doRecover
		has("src_recover_out_of_date_ge", rsm, "StateMachine", "doRecover", "s.GetLastApplied() >= ss.Index"),
		has("src_recover_partial", rsm, "StateMachine", "doRecover", "ss.Witness || ss.Dummy || shrunk"),
		// checkSnapshotStatus
		has("src_status_same_index", rsm, "StateMachine", "checkSnapshotStatus", "!r.Exported() && index > 0 && index == s.snapshotIndex"),
		// what getSSMeta captures (under the lock held by its callers)
		c08Bool("src_ssmeta_fields", func() bool {
			return c08CompositeFields(rsm(), "StateMachine", "getSSMeta", "SSMeta", map[string]string{
				"Index": "s.index", "Term": "s.term", "OnDiskIndex": "s.onDiskIndex",
				"Membership": "s.members.get()", "Session": "buf",
			})
		}),
		// membership.get hands out a deep copy: a snapshot record never shares maps with the live membership
		c08Bool("src_membership_get_copies", func() bool {
			p := rsm()
			fd := p.Func("membership", "get")
			return c08Print(p, fd.Body) == "{ return deepCopyMembership(m.members) }"
		}),
		// StateMachine.apply restores membership, index and term from the snapshot record
		c08Bool("src_apply_restores", func() bool {
			p := rsm()
			fd := p.Func("StateMachine", "apply")
			body := c08Print(p, fd.Body)
			return strings.Contains(body, "s.members.set(ss.Membership)") &&
				strings.Contains(body, "s.lastApplied.index, s.lastApplied.term = ss.Index, ss.Term") &&
				strings.Contains(body, "s.index, s.term = ss.Index, ss.Term")
		}),
		// a dummy snapshot is what a non-exported save of an on-disk SM writes
		has("src_dummy_rule", rsm, "NativeSM", "Save", "ds.config.IsWitness || (ds.sm.OnDisk() && !meta.Request.Exported())"),
		// node.getCompactionIndex
		has("src_compaction_user_index", root, "node", "getCompactionIndex", "index > req.CompactionIndex"),
		has("src_compaction_user_index_set", root, "node", "getCompactionIndex", "req.CompactionIndex > 0"),
		has("src_compaction_user_overhead", root, "node", "getCompactionIndex", "index > req.CompactionOverhead"),
		has("src_compaction_overhead", root, "node", "getCompactionIndex", "index > n.config.CompactionOverhead"),
		// order of effects
		c08Bool("src_dosave_order", func() bool {
			return c08CallOrder(root(), "node", "doSave",
				"n.sm.Save", "n.snapshotter.Commit", "n.logReader.CreateSnapshot", "n.compactLog", "n.ss.setIndex")
		}),
		c08Bool("src_commit_order", func() bool {
			return c08CallOrder(root(), "snapshotter", "Commit", "env.FinalizeSnapshot", "s.saveSnapshot")
		}),
		c08Bool("src_recover_order", func() bool {
			return c08CallOrder(root(), "node", "recover", "n.sm.Recover", "n.compactLog")
		}),
		c08Bool("src_remove_log_order", func() bool {
			return c08CallOrder(root(), "node", "removeLog",
				"n.ss.hasCompactLogTo", "n.ss.getCompactLogTo", "n.logReader.Compact", "n.logdb.RemoveEntriesTo")
		}),
		c08Bool("src_save_raft_state_before_process_snapshot", func() bool {
			// engine.processSteps: SaveRaftState, then applySnapshotAndUpdate(..., false)
			p := root()
			fd := p.Func("engine", "processSteps")
			var save, apply []int
			ast.Inspect(fd.Body, func(n ast.Node) bool {
				if ce, ok := n.(*ast.CallExpr); ok {
					switch c08Print(p, ce.Fun) {
					case "e.logdb.SaveRaftState":
						save = append(save, int(ce.Pos()))
					case "e.applySnapshotAndUpdate":
						if len(ce.Args) == 3 && c08Print(p, ce.Args[2]) == "false" {
							apply = append(apply, int(ce.Pos()))
						}
					}
				}
				return true
			})
			return len(save) == 1 && len(apply) == 1 && save[0] < apply[0]
		}),
		// a Stream task is refused whenever the state machine is not ready to stream — no other condition attached
		c08Bool("src_can_stream_guard", func() bool {
			got := strings.Join(c08IfConds(root(), "node", "canStream"), " ; ")
			return got == "n.ss.streaming() ; !n.sm.ReadyToStream()"
		}),
		c08Bool("src_ready_to_stream", func() bool {
			p := rsm()
			return c08HasExpr(p, "StateMachine", "ReadyToStream", "s.GetLastApplied() >= s.onDiskInitIndex") &&
				c08HasExpr(p, "StateMachine", "ReadyToStream", "!s.OnDiskStateMachine()")
		}),
		// NodeHost.sendMessage: an on-disk replica (and only a non-witness target) is served by a stream, never by the recorded file
		c08Bool("src_send_snapshot_decision", func() bool {
			for _, c := range c08IfConds(root(), "NodeHost", "sendMessage") {
				if c == "witness || !n.OnDiskStateMachine()" {
					return true
				}
			}
			return false
		}),
		// node.handleSnapshotTask: a Stream task is either refused WITH a failure report to raft or becomes the stream job
		c08Bool("src_stream_task_outcome", func() bool {
			got := strings.Join(c08IfConds(root(), "node", "handleSnapshotTask"), " ; ")
			return got == "n.ss.recovering() ; task.Recover ; task.Save ; n.ss.saving() ; task.Stream ; !n.canStream()"
		}),
		// the chunk receiver fsyncs a file with its last chunk, for streamed snapshots (IsLastChunk) and files alike
		has("src_chunk_sync_cond", func() *Pkg { return loadPkg("internal/transport") }, "Chunk", "save", "chunk.IsLastChunk() || chunk.IsLastFileChunk()"),
		// handleBatch decodes every entry into its own buffer (GetPayload -> getDecodedPayload(cmd, nil))
		c08Bool("src_batch_payload_own_buffer", func() bool {
			p := rsm()
			return c08CallOrder(p, "StateMachine", "handleBatch", "GetPayload", "s.sm.BatchedUpdate") &&
				strings.Contains(c08Print(p, p.Func("", "GetPayload").Body), "return getDecodedPayload(e.Cmd, nil)")
		}),
		// concurrentSave: prepare(), then Sync() unconditionally, then doSave
		c08Bool("src_concurrent_save_syncs", func() bool {
			return c08TopLevelIfInit(rsm(), "StateMachine", "concurrentSave", "err := s.sync()") &&
				c08CallOrder(rsm(), "StateMachine", "concurrentSave", "s.prepare", "s.sync", "s.doSave")
		}),
		has("src_snapshot_update_not_fast_applied", func() *Pkg { return loadPkg("internal/raft") }, "", "setFastApply", "!pb.IsEmptySnapshot(ud.Snapshot)"),
	}})
}
