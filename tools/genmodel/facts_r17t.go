package main

import (
	"go/ast"
)

// Transport.send starts one worker per target; the worker's closure must unregister the
// target's queue on every exit (graceful or not): its last top-level statement is the plain
// call shutdownQueue(), and shutdownQueue deletes the key from t.mu.queues.
func sendWorkerAlwaysUnregisters() bool {
	p := loadPkg("internal/transport")
	fn := p.Func("Transport", "send")
	ok := false
	deletes := false
	ast.Inspect(fn.Body, func(n ast.Node) bool {
		switch x := n.(type) {
		case *ast.AssignStmt:
			// shutdownQueue := func() { ... delete(t.mu.queues, key) ... }
			if len(x.Lhs) == 1 && len(x.Rhs) == 1 {
				if id, isID := x.Lhs[0].(*ast.Ident); isID && id.Name == "shutdownQueue" {
					if fl, isFL := x.Rhs[0].(*ast.FuncLit); isFL {
						ast.Inspect(fl.Body, func(m ast.Node) bool {
							if ce, isCE := m.(*ast.CallExpr); isCE {
								if f, isF := ce.Fun.(*ast.Ident); isF && f.Name == "delete" {
									deletes = true
								}
							}
							return true
						})
					}
				}
			}
		case *ast.CallExpr:
			sel, isSel := x.Fun.(*ast.SelectorExpr)
			if !isSel || sel.Sel.Name != "RunWorker" || len(x.Args) != 1 {
				return true
			}
			fl, isFL := x.Args[0].(*ast.FuncLit)
			if !isFL || len(fl.Body.List) == 0 {
				return true
			}
			last := fl.Body.List[len(fl.Body.List)-1]
			if es, isES := last.(*ast.ExprStmt); isES {
				if ce, isCE := es.X.(*ast.CallExpr); isCE {
					if f, isF := ce.Fun.(*ast.Ident); isF && f.Name == "shutdownQueue" {
						ok = true
					}
				}
			}
			// a deferred shutdownQueue() as the first statement is as good
			for _, st := range fl.Body.List {
				if ds, isDS := st.(*ast.DeferStmt); isDS {
					if f, isF := ds.Call.Fun.(*ast.Ident); isF && f.Name == "shutdownQueue" {
						ok = true
					}
				}
			}
		}
		return true
	})
	return ok && deletes
}

func init() {
	register(&Unit{Name: "R17T", Facts: []Fact{
		{Name: "send_worker_always_unregisters", Gen: func() string {
			return defBool("send_worker_always_unregisters", sendWorkerAlwaysUnregisters())
		}},
	}})
}
