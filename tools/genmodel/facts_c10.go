package main

import (
	"go/ast"
	"go/token"
	"math/big"
)

// C10 facts: how the Pebble based LogDB treats errors of the KV store while a
// save is assembled, how many KV write calls a save makes, whether commits are
// synced, and the constants of tan's record format.

// c10IfErrReturns looks, inside fn, for `if err := <recv>.<callee>(...); err != nil { return X... }`
// and reports (found, the returned expression list mentions the identifier err).
func c10IfErrReturns(fn *ast.FuncDecl, callee string) (bool, bool) {
	found, propagates := false, true
	ast.Inspect(fn.Body, func(n ast.Node) bool {
		is, ok := n.(*ast.IfStmt)
		if !ok || is.Init == nil {
			return true
		}
		as, ok := is.Init.(*ast.AssignStmt)
		if !ok || len(as.Rhs) != 1 {
			return true
		}
		call, ok := as.Rhs[0].(*ast.CallExpr)
		if !ok {
			return true
		}
		sel, ok := call.Fun.(*ast.SelectorExpr)
		if !ok || sel.Sel.Name != callee {
			return true
		}
		found = true
		ret := false
		for _, st := range is.Body.List {
			if r, ok := st.(*ast.ReturnStmt); ok {
				for _, e := range r.Results {
					if id, ok := e.(*ast.Ident); ok && id.Name == "err" {
						ret = true
					}
					if c, ok := e.(*ast.CallExpr); ok { // errors.WithStack(err) and the like
						for _, a := range c.Args {
							if id, ok := a.(*ast.Ident); ok && id.Name == "err" {
								ret = true
							}
						}
					}
				}
			}
			// a panic is also a failure of the save
			if es, ok := st.(*ast.ExprStmt); ok {
				if c, ok := es.X.(*ast.CallExpr); ok {
					switch f := c.Fun.(type) {
					case *ast.Ident:
						if f.Name == "panic" || f.Name == "panicNow" {
							ret = true
						}
					case *ast.SelectorExpr:
						if f.Sel.Name == "Panicf" {
							ret = true
						}
					}
				}
			}
		}
		if !ret {
			propagates = false
		}
		return true
	})
	return found, found && propagates
}

// c10CountCalls counts the calls `<x>.<name>(...)` in fn.
func c10CountCalls(fn *ast.FuncDecl, names ...string) int {
	k := 0
	ast.Inspect(fn.Body, func(n ast.Node) bool {
		if c, ok := n.(*ast.CallExpr); ok {
			if s, ok := c.Fun.(*ast.SelectorExpr); ok {
				for _, nm := range names {
					if s.Sel.Name == nm {
						k++
					}
				}
			}
		}
		return true
	})
	return k
}

func c10HasErrorResult(fn *ast.FuncDecl) bool {
	if fn.Type.Results == nil {
		return false
	}
	for _, f := range fn.Type.Results.List {
		if id, ok := f.Type.(*ast.Ident); ok && id.Name == "error" {
			return true
		}
	}
	return false
}

// c10SyncShape inspects a tan save function: the bool result of db.write must be
// received in a variable of its own (not in accumulate) and there must be an
// `if <that variable> { ... }` whose body, when accumulate != "", assigns
// `accumulate = true`, or, when call != "", calls <x>.<call>(...).
func c10SyncShape(fn *ast.FuncDecl, accumulate string, call string) bool {
	flag := ""
	direct := false
	ast.Inspect(fn.Body, func(n ast.Node) bool {
		as, ok := n.(*ast.AssignStmt)
		if !ok || len(as.Rhs) != 1 || len(as.Lhs) < 1 {
			return true
		}
		c, ok := as.Rhs[0].(*ast.CallExpr)
		if !ok {
			return true
		}
		sel, ok := c.Fun.(*ast.SelectorExpr)
		if !ok || sel.Sel.Name != "write" {
			return true
		}
		if id, ok := as.Lhs[0].(*ast.Ident); ok {
			if accumulate != "" && id.Name == accumulate {
				direct = true
			}
			flag = id.Name
		}
		return true
	})
	if flag == "" {
		panic(fn.Name.Name + ": no `x, err := db.write(...)`")
	}
	if direct {
		return false
	}
	found := false
	ast.Inspect(fn.Body, func(n ast.Node) bool {
		is, ok := n.(*ast.IfStmt)
		if !ok {
			return true
		}
		id, ok := is.Cond.(*ast.Ident)
		if !ok || id.Name != flag {
			return true
		}
		ast.Inspect(is.Body, func(m ast.Node) bool {
			if accumulate != "" {
				if as, ok := m.(*ast.AssignStmt); ok && len(as.Lhs) == 1 && len(as.Rhs) == 1 {
					l, ok1 := as.Lhs[0].(*ast.Ident)
					r, ok2 := as.Rhs[0].(*ast.Ident)
					if ok1 && ok2 && l.Name == accumulate && r.Name == "true" {
						found = true
					}
				}
			}
			if call != "" {
				if c, ok := m.(*ast.CallExpr); ok {
					if s, ok := c.Fun.(*ast.SelectorExpr); ok && s.Sel.Name == call {
						found = true
					}
				}
			}
			return true
		})
		return true
	})
	return found
}

// c10WorkerPanics: inside fn every `if err := <call>; err != nil { ... }` calls
// panicNow in its body; at least min such statements exist.
func c10WorkerPanics(fn *ast.FuncDecl, min int) bool {
	n, ok := 0, true
	ast.Inspect(fn.Body, func(x ast.Node) bool {
		is, isIf := x.(*ast.IfStmt)
		if !isIf || is.Init == nil {
			return true
		}
		as, isAs := is.Init.(*ast.AssignStmt)
		if !isAs || len(as.Lhs) != 1 {
			return true
		}
		if id, isID := as.Lhs[0].(*ast.Ident); !isID || id.Name != "err" {
			return true
		}
		n++
		found := false
		ast.Inspect(is.Body, func(y ast.Node) bool {
			if c, isCall := y.(*ast.CallExpr); isCall {
				if id, isID := c.Fun.(*ast.Ident); isID && id.Name == "panicNow" {
					found = true
				}
			}
			return true
		})
		if !found {
			ok = false
		}
		return true
	})
	return ok && n >= min
}

// c10ReturnsCall: fn has a return statement (or an if-err-return) that hands on the
// result of <x>.<name>(...).
func c10ReturnsCall(fn *ast.FuncDecl, name string) bool {
	res := false
	ast.Inspect(fn.Body, func(x ast.Node) bool {
		if r, ok := x.(*ast.ReturnStmt); ok {
			for _, e := range r.Results {
				ast.Inspect(e, func(y ast.Node) bool {
					if c, ok := y.(*ast.CallExpr); ok {
						if s, ok := c.Fun.(*ast.SelectorExpr); ok && s.Sel.Name == name {
							res = true
						}
					}
					return true
				})
			}
		}
		return true
	})
	if !res {
		_, res = c10IfErrReturns(fn, name)
	}
	return res
}

func init() {
	ld := func() *Pkg { return loadPkg("internal/logdb") }
	bfact := func(name string, f func() bool) Fact {
		return Fact{Name: name, Gen: func() string { return defBool(name, f()) }}
	}
	register(&Unit{Name: "C10", Facts: []Fact{
		// F1: an error of saveSnapshot (a failed IterateValue while listing the old
		// snapshot records) makes saveRaftState / saveSnapshots fail
		bfact("c10_save_raft_state_propagates_snapshot_error", func() bool {
			found, ok := c10IfErrReturns(ld().Func("db", "saveRaftState"), "saveSnapshot")
			if !found {
				panic("saveRaftState: no `if err := r.saveSnapshot(...)`")
			}
			return ok
		}),
		bfact("c10_save_snapshots_propagates_snapshot_error", func() bool {
			found, ok := c10IfErrReturns(ld().Func("db", "saveSnapshots"), "saveSnapshot")
			if !found {
				panic("saveSnapshots: no `if err := r.saveSnapshot(...)`")
			}
			return ok
		}),
		// F2: a failed GetValue while loading the stored first batch is not taken for
		// "no such batch": every `if err := be.kvs.GetValue(...)` of batch.go returns
		// the error, record() can report it and saveRaftState checks saveEntries
		bfact("c10_batch_read_error_propagates", func() bool {
			p := ld()
			any := false
			all := true
			for _, f := range p.Files {
				for _, d := range f.Decls {
					fd, ok := d.(*ast.FuncDecl)
					if !ok || fd.Recv == nil || fd.Body == nil {
						continue
					}
					r := ""
					if len(fd.Recv.List) > 0 {
						t := fd.Recv.List[0].Type
						if s, ok := t.(*ast.StarExpr); ok {
							t = s.X
						}
						if id, ok := t.(*ast.Ident); ok {
							r = id.Name
						}
					}
					if r != "batchedEntries" {
						continue
					}
					found, ok2 := c10IfErrReturns(fd, "GetValue")
					if found {
						any = true
						if !ok2 || !c10HasErrorResult(fd) {
							all = false
						}
					}
				}
			}
			if !any {
				panic("batch.go: no `if err := be.kvs.GetValue(...)`")
			}
			if !c10HasErrorResult(p.Func("batchedEntries", "record")) {
				return false
			}
			found, ok := c10IfErrReturns(p.Func("db", "saveRaftState"), "saveEntries")
			return all && found && ok
		}),
		// one KV write call per saveRaftState, and it is CommitWriteBatch
		NFact("c10_save_raft_state_commit_calls", func() *big.Int {
			return big.NewInt(int64(c10CountCalls(ld().Func("db", "saveRaftState"), "CommitWriteBatch")))
		}),
		NFact("c10_save_path_other_write_calls", func() *big.Int {
			p := ld()
			k := 0
			for _, fn := range []*ast.FuncDecl{
				p.Func("db", "saveRaftState"), p.Func("db", "saveEntries"), p.Func("db", "saveSnapshot"),
				p.Func("db", "saveState"), p.Func("db", "saveMaxIndex"), p.Func("db", "setMaxIndex"),
				p.Func("plainEntries", "record"), p.Func("batchedEntries", "record"),
				p.Func("batchedEntries", "recordBatch")} {
				k += c10CountCalls(fn, "SaveValue", "DeleteValue", "BulkRemoveEntries")
			}
			k += c10CountCalls(p.Func("db", "saveEntries"), "CommitWriteBatch")
			return big.NewInt(int64(k))
		}),
		// Pebble write options used for every commit: Sync: true
		bfact("c10_commit_sync", func() bool {
			p := loadPkg("internal/logdb/kv/pebble")
			fn := p.Func("", "openPebbleDB")
			res := false
			seen := false
			ast.Inspect(fn.Body, func(n ast.Node) bool {
				cl, ok := n.(*ast.CompositeLit)
				if !ok {
					return true
				}
				if s, ok := cl.Type.(*ast.SelectorExpr); !ok || s.Sel.Name != "WriteOptions" {
					return true
				}
				seen = true
				for _, el := range cl.Elts {
					if kv, ok := el.(*ast.KeyValueExpr); ok {
						if id, ok := kv.Key.(*ast.Ident); ok && id.Name == "Sync" {
							if v, ok := kv.Value.(*ast.Ident); ok && v.Name == "true" {
								res = true
							}
						}
					}
				}
				return true
			})
			if !seen {
				panic("openPebbleDB: WriteOptions literal not found")
			}
			return res
		}),
		// tan: which updates of one SaveRaftState call make the log file fsynced.
		// multiplexed mode: the flag returned by db.write is OR-ed into syncLog (one
		// fsync at the end if ANY update needs it); regular mode: every update that
		// needs it is fsynced
		bfact("c10_tanmux_batch_sync_accumulates", func() bool {
			return c10SyncShape(loadPkg("internal/tan").Func("LogDB", "concurrentSaveState"), "syncLog", "")
		}),
		bfact("c10_tan_seq_sync_each_update", func() bool {
			return c10SyncShape(loadPkg("internal/tan").Func("LogDB", "sequentialSaveState"), "", "sync")
		}),
		// tan: an error of the log rollover (makeRoomForWrite) fails the write
		bfact("c10_tan_rollover_error_propagates", func() bool {
			found, ok := c10IfErrReturns(loadPkg("internal/tan").Func("db", "doWriteLocked"), "makeRoomForWrite")
			if !found {
				panic("doWriteLocked: no `if err := d.makeRoomForWrite()`")
			}
			return ok
		}),
		// engine.go: every error a step / commit / apply / snapshot / close worker gets
		// from its processing function ends in panicNow (the host stops), and the
		// processing functions hand the log store's error on
		bfact("c10_engine_workers_panic_on_error", func() bool {
			p := loadPkg(".")
			return c10WorkerPanics(p.Func("engine", "stepWorkerMain"), 2) &&
				c10WorkerPanics(p.Func("engine", "commitWorkerMain"), 0) &&
				c10WorkerPanics(p.Func("engine", "applyWorkerMain"), 2) &&
				c10WorkerPanics(p.Func("ssWorker", "workerMain"), 1) &&
				c10WorkerPanics(p.Func("closeWorker", "workerMain"), 1)
		}),
		bfact("c10_process_steps_propagates_save_error", func() bool {
			found, ok := c10IfErrReturns(loadPkg(".").Func("engine", "processSteps"), "SaveRaftState")
			if !found {
				panic("processSteps: no `if err := e.logdb.SaveRaftState(...)`")
			}
			return ok
		}),
		bfact("c10_snapshotter_propagates_save_snapshots_error", func() bool {
			return c10ReturnsCall(loadPkg(".").Func("snapshotter", "saveSnapshot"), "SaveSnapshots")
		}),
		// tan record format
		NFact("c10_tan_block_size", func() *big.Int { return loadPkg("internal/tan").Const("blockSize") }),
		NFact("c10_tan_header_size", func() *big.Int { return loadPkg("internal/tan").Const("legacyHeaderSize") }),
		NFact("c10_tan_recyclable_header_size", func() *big.Int { return loadPkg("internal/tan").Const("recyclableHeaderSize") }),
		NFact("c10_tan_full_chunk", func() *big.Int { return loadPkg("internal/tan").Const("fullChunkType") }),
		NFact("c10_tan_first_chunk", func() *big.Int { return loadPkg("internal/tan").Const("firstChunkType") }),
		NFact("c10_tan_middle_chunk", func() *big.Int { return loadPkg("internal/tan").Const("middleChunkType") }),
		NFact("c10_tan_last_chunk", func() *big.Int { return loadPkg("internal/tan").Const("lastChunkType") }),
		NFact("c10_tan_recyclable_full_chunk", func() *big.Int { return loadPkg("internal/tan").Const("recyclableFullChunkType") }),
		NFact("c10_tan_recyclable_last_chunk", func() *big.Int { return loadPkg("internal/tan").Const("recyclableLastChunkType") }),
		// the writer fills the chunk header as checksum(4) | length(2) | type(1): the offsets used by fillHeader
		NFact("c10_tan_type_offset", func() *big.Int {
			p := loadPkg("internal/tan")
			fn := p.Func("writer", "fillHeader")
			var vs []*big.Int
			ast.Inspect(fn.Body, func(n ast.Node) bool {
				as, ok := n.(*ast.AssignStmt)
				if !ok || len(as.Lhs) != 1 || as.Tok != token.ASSIGN {
					return true
				}
				ix, ok := as.Lhs[0].(*ast.IndexExpr)
				if !ok {
					return true
				}
				if be, ok := ix.Index.(*ast.BinaryExpr); ok && be.Op == token.ADD {
					vs = append(vs, p.Eval(be.Y, 0))
				}
				return true
			})
			return Unanimous("fillHeader type offset", vs, 4)
		}),
	}})
}
