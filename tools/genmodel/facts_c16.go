package main

import (
	"fmt"
	"go/ast"
	"math/big"
)

// callLine returns the source line of the first call `<...>.<sel>(...)` (or plain
// `<sel>(...)`) inside fn; panics when there is none.
func callLine(p *Pkg, fn *ast.FuncDecl, sel string) *big.Int {
	line := 0
	ast.Inspect(fn.Body, func(n ast.Node) bool {
		ce, ok := n.(*ast.CallExpr)
		if !ok || line != 0 {
			return true
		}
		name := ""
		switch f := ce.Fun.(type) {
		case *ast.SelectorExpr:
			name = f.Sel.Name
		case *ast.Ident:
			name = f.Name
		}
		if name == sel {
			line = p.Fset.Position(ce.Pos()).Line
		}
		return true
	})
	if line == 0 {
		panic(fmt.Sprintf("no call of %s in %s", sel, fn.Name.Name))
	}
	return big.NewInt(int64(line))
}

// callRank is the position (0-based) of sel among sels when ordered by the
// source position of their first call inside fn: the statement order.
func callRank(p *Pkg, fn *ast.FuncDecl, sel string, sels ...string) *big.Int {
	me := callLine(p, fn, sel)
	r := 0
	for _, o := range sels {
		if callLine(p, fn, o).Cmp(me) < 0 {
			r++
		}
	}
	return big.NewInt(int64(r))
}

func init() {
	root := func() *Pkg { return loadPkg(".") }
	srv := func() *Pkg { return loadPkg("internal/server") }
	register(&Unit{Name: "C16", Facts: []Fact{
		// snapshotter.Commit: SaveSSMetadata ; FinalizeSnapshot ; saveSnapshot ; RemoveFlagFile
		NFact("commit_pos_metadata", func() *big.Int { p := root(); return callRank(p, p.Func("snapshotter", "Commit"), "SaveSSMetadata", "SaveSSMetadata", "FinalizeSnapshot", "saveSnapshot", "RemoveFlagFile") }),
		NFact("commit_pos_finalize", func() *big.Int { p := root(); return callRank(p, p.Func("snapshotter", "Commit"), "FinalizeSnapshot", "SaveSSMetadata", "FinalizeSnapshot", "saveSnapshot", "RemoveFlagFile") }),
		NFact("commit_pos_record", func() *big.Int { p := root(); return callRank(p, p.Func("snapshotter", "Commit"), "saveSnapshot", "SaveSSMetadata", "FinalizeSnapshot", "saveSnapshot", "RemoveFlagFile") }),
		NFact("commit_pos_rmflag", func() *big.Int { p := root(); return callRank(p, p.Func("snapshotter", "Commit"), "RemoveFlagFile", "SaveSSMetadata", "FinalizeSnapshot", "saveSnapshot", "RemoveFlagFile") }),
		// engine.processSteps: SaveRaftState ; onSnapshotSaved (removes the flag file of a received snapshot)
		NFact("engine_pos_save_raft_state", func() *big.Int { p := root(); return callRank(p, p.Func("engine", "processSteps"), "SaveRaftState", "SaveRaftState", "onSnapshotSaved") }),
		NFact("engine_pos_on_snapshot_saved", func() *big.Int { p := root(); return callRank(p, p.Func("engine", "processSteps"), "onSnapshotSaved", "SaveRaftState", "onSnapshotSaved") }),
		// node.recover (on-disk state machines): sm.Sync ; snapshotter.Shrink
		NFact("recover_pos_sync", func() *big.Int { p := root(); return callRank(p, p.Func("node", "recover"), "Sync", "Sync", "Shrink") }),
		NFact("recover_pos_shrink", func() *big.Int { p := root(); return callRank(p, p.Func("node", "recover"), "Shrink", "Sync", "Shrink") }),
		// SSEnv.FinalizeSnapshot: createFlagFile ; finalDirExists ; renameToFinalDir
		NFact("finalize_pos_flag", func() *big.Int { p := srv(); return callRank(p, p.Func("SSEnv", "FinalizeSnapshot"), "createFlagFile", "createFlagFile", "finalDirExists", "renameToFinalDir") }),
		NFact("finalize_pos_check", func() *big.Int { p := srv(); return callRank(p, p.Func("SSEnv", "FinalizeSnapshot"), "finalDirExists", "createFlagFile", "finalDirExists", "renameToFinalDir") }),
		NFact("finalize_pos_rename", func() *big.Int { p := srv(); return callRank(p, p.Func("SSEnv", "FinalizeSnapshot"), "renameToFinalDir", "createFlagFile", "finalDirExists", "renameToFinalDir") }),
	}})
}
