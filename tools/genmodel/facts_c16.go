package main

import (
	"fmt"
	"go/ast"
	"math/big"
	"regexp"
	"strings"
)

// callLine returns the source line of the first call `<...>.<sel>(...)` (or plain
// `<sel>(...)`) inside fn; panics when there is none.
func callLine(p *Pkg, fn *ast.FuncDecl, sel string) *big.Int {
	line := 0
	ast.Inspect(fn.Body, func(n ast.Node) bool {
		ce, ok := n.(*ast.CallExpr)
		if !ok || line != 0 {
			return true
		}
		name := ""
		switch f := ce.Fun.(type) {
		case *ast.SelectorExpr:
			name = f.Sel.Name
		case *ast.Ident:
			name = f.Name
		}
		if name == sel {
			line = p.Fset.Position(ce.Pos()).Line
		}
		return true
	})
	if line == 0 {
		panic(fmt.Sprintf("no call of %s in %s", sel, fn.Name.Name))
	}
	return big.NewInt(int64(line))
}

// callRank is the position (0-based) of sel among sels when ordered by the
// source position of their first call inside fn: the statement order.
func callRank(p *Pkg, fn *ast.FuncDecl, sel string, sels ...string) *big.Int {
	me := callLine(p, fn, sel)
	r := 0
	for _, o := range sels {
		if callLine(p, fn, o).Cmp(me) < 0 {
			r++
		}
	}
	return big.NewInt(int64(r))
}

// condMentions reports whether fn has an if statement whose condition contains a
// call of a method named sel and whose body contains a call of a method named body.
func condMentions(fn *ast.FuncDecl, sel string, body string) bool {
	calls := func(n ast.Node, name string) bool {
		found := false
		ast.Inspect(n, func(x ast.Node) bool {
			if ce, ok := x.(*ast.CallExpr); ok {
				switch f := ce.Fun.(type) {
				case *ast.SelectorExpr:
					if f.Sel.Name == name {
						found = true
					}
				case *ast.Ident:
					if f.Name == name {
						found = true
					}
				}
			}
			return true
		})
		return found
	}
	res := false
	ast.Inspect(fn.Body, func(n ast.Node) bool {
		if is, ok := n.(*ast.IfStmt); ok {
			if calls(is.Cond, sel) && calls(is.Body, body) {
				res = true
			}
		}
		return true
	})
	return res
}

// condIsBareCall reports whether fn has an if statement whose body calls body and
// whose condition is exactly one method call named sel (no && / || / !).
func condIsBareCall(fn *ast.FuncDecl, sel string, body string) bool {
	res := false
	ast.Inspect(fn.Body, func(n ast.Node) bool {
		is, ok := n.(*ast.IfStmt)
		if !ok {
			return true
		}
		hasBody := false
		ast.Inspect(is.Body, func(x ast.Node) bool {
			if ce, ok := x.(*ast.CallExpr); ok {
				if f, ok := ce.Fun.(*ast.SelectorExpr); ok && f.Sel.Name == body {
					hasBody = true
				}
			}
			return true
		})
		if ce, ok := is.Cond.(*ast.CallExpr); ok && hasBody {
			if f, ok := ce.Fun.(*ast.SelectorExpr); ok && f.Sel.Name == sel {
				res = true
			}
		}
		return true
	})
	return res
}

// reBounds parses one of the three directory name expressions of
// internal/server/snapshotenv.go, `^snapshot-[0-9A-F]Q(-[0-9A-F]Q\.suffix)?$` with Q
// either + or {m,n} / {m,}, and returns the repetition bounds of the index part and
// of the id part (max = 2^64 when unbounded). group: the index part may be a group.
func reBounds(p *Pkg, name string, suffix string) (idxMin, idxMax, idMin, idMax *big.Int) {
	e, _, ok := p.valueSpec(name)
	if !ok {
		panic("variable " + name + " not found")
	}
	ce, ok := e.(*ast.CallExpr)
	if !ok || len(ce.Args) != 1 {
		panic(name + " is not regexp.MustCompile(<literal>)")
	}
	lit, ok := ce.Args[0].(*ast.BasicLit)
	if !ok {
		panic(name + ": pattern is not a literal")
	}
	pat := strings.Trim(lit.Value, "`\"")
	q := `(\+|\{(\d+),(\d*)\})`
	cls := `\[0-9A-F\]`
	var re *regexp.Regexp
	if suffix == "" {
		re = regexp.MustCompile(`^\^snapshot-\(?` + cls + q + `\)?\$$`)
	} else {
		re = regexp.MustCompile(`^\^snapshot-` + cls + q + `-` + cls + q + `\\\.` + suffix + `\$$`)
	}
	m := re.FindStringSubmatch(pat)
	if m == nil {
		panic(fmt.Sprintf("%s: pattern %q has an unexpected shape", name, pat))
	}
	unb := new(big.Int).Lsh(big.NewInt(1), 64)
	bounds := func(g []string) (*big.Int, *big.Int) {
		if g[0] == "+" {
			return big.NewInt(1), unb
		}
		lo, _ := new(big.Int).SetString(g[1], 10)
		if g[2] == "" {
			return lo, unb
		}
		hi, _ := new(big.Int).SetString(g[2], 10)
		return lo, hi
	}
	idxMin, idxMax = bounds(m[1:4])
	if suffix != "" {
		idMin, idMax = bounds(m[4:7])
	}
	return
}

// sprintfFormat returns the format literal of the fmt.Sprintf call in fn.
func sprintfFormat(p *Pkg, fn *ast.FuncDecl) string {
	res := ""
	ast.Inspect(fn.Body, func(n ast.Node) bool {
		if ce, ok := n.(*ast.CallExpr); ok {
			if f, ok := ce.Fun.(*ast.SelectorExpr); ok && f.Sel.Name == "Sprintf" && len(ce.Args) > 0 {
				if lit, ok := ce.Args[0].(*ast.BasicLit); ok && res == "" {
					res = strings.Trim(lit.Value, "`\"")
				}
			}
		}
		return true
	})
	if res == "" {
		panic("no Sprintf format in " + fn.Name.Name)
	}
	return res
}

// ifInitCallFatal reports whether fn has `if err := <..>.call(); err != nil { fatal(err) }`.
func ifInitCallFatal(fn *ast.FuncDecl, call string, fatal string) bool {
	has := func(n ast.Node, name string) bool {
		found := false
		if n == nil {
			return false
		}
		ast.Inspect(n, func(x ast.Node) bool {
			if ce, ok := x.(*ast.CallExpr); ok {
				switch f := ce.Fun.(type) {
				case *ast.SelectorExpr:
					if f.Sel.Name == name {
						found = true
					}
				case *ast.Ident:
					if f.Name == name {
						found = true
					}
				}
			}
			return true
		})
		return found
	}
	res := false
	ast.Inspect(fn.Body, func(n ast.Node) bool {
		if is, ok := n.(*ast.IfStmt); ok && is.Init != nil {
			if has(is.Init, call) && has(is.Body, fatal) {
				res = true
			}
		}
		return true
	})
	return res
}

func c16BoolFact(name string, f func() bool) Fact {
	return Fact{Name: name, Gen: func() string { return defBool(name, f()) }}
}

func init() {
	root := func() *Pkg { return loadPkg(".") }
	srv := func() *Pkg { return loadPkg("internal/server") }
	register(&Unit{Name: "C16", Facts: []Fact{
		// snapshotter.Commit: SaveSSMetadata ; FinalizeSnapshot ; saveSnapshot ; RemoveFlagFile
		NFact("commit_pos_metadata", func() *big.Int { p := root(); return callRank(p, p.Func("snapshotter", "Commit"), "SaveSSMetadata", "SaveSSMetadata", "FinalizeSnapshot", "saveSnapshot", "RemoveFlagFile") }),
		NFact("commit_pos_finalize", func() *big.Int { p := root(); return callRank(p, p.Func("snapshotter", "Commit"), "FinalizeSnapshot", "SaveSSMetadata", "FinalizeSnapshot", "saveSnapshot", "RemoveFlagFile") }),
		NFact("commit_pos_record", func() *big.Int { p := root(); return callRank(p, p.Func("snapshotter", "Commit"), "saveSnapshot", "SaveSSMetadata", "FinalizeSnapshot", "saveSnapshot", "RemoveFlagFile") }),
		NFact("commit_pos_rmflag", func() *big.Int { p := root(); return callRank(p, p.Func("snapshotter", "Commit"), "RemoveFlagFile", "SaveSSMetadata", "FinalizeSnapshot", "saveSnapshot", "RemoveFlagFile") }),
		// engine.processSteps: SaveRaftState ; onSnapshotSaved (removes the flag file of a received snapshot)
		NFact("engine_pos_save_raft_state", func() *big.Int { p := root(); return callRank(p, p.Func("engine", "processSteps"), "SaveRaftState", "SaveRaftState", "onSnapshotSaved") }),
		NFact("engine_pos_on_snapshot_saved", func() *big.Int { p := root(); return callRank(p, p.Func("engine", "processSteps"), "onSnapshotSaved", "SaveRaftState", "onSnapshotSaved") }),
		// node.recover (on-disk state machines): sm.Sync ; snapshotter.Shrink
		NFact("recover_pos_sync", func() *big.Int { p := root(); return callRank(p, p.Func("node", "recover"), "Sync", "Sync", "Shrink") }),
		NFact("recover_pos_shrink", func() *big.Int { p := root(); return callRank(p, p.Func("node", "recover"), "Shrink", "Sync", "Shrink") }),
		// transport.Chunk.save: a received file is fsynced at the last chunk of EACH file
		c16BoolFact("chunk_save_syncs_each_file", func() bool {
			p := loadPkg("internal/transport")
			return condMentions(p.Func("Chunk", "save"), "IsLastFileChunk", "sync")
		}),
		// rsm.StateMachine.Save: every snapshot of a concurrent (incl. on-disk) state machine
		// goes through concurrentSave, which calls sync() before doSave
		c16BoolFact("save_concurrent_cond_plain", func() bool {
			p := loadPkg("internal/rsm")
			return condIsBareCall(p.Func("StateMachine", "Save"), "Concurrent", "concurrentSave")
		}),
		NFact("concurrent_save_pos_sync", func() *big.Int {
			p := loadPkg("internal/rsm")
			return callRank(p, p.Func("StateMachine", "concurrentSave"), "sync", "sync", "doSave")
		}),
		NFact("concurrent_save_pos_dosave", func() *big.Int {
			p := loadPkg("internal/rsm")
			return callRank(p, p.Func("StateMachine", "concurrentSave"), "doSave", "sync", "doSave")
		}),
		// NodeHost.startShard: the shard's snapshotter runs processOrphans, a failure is fatal,
		// and this happens before the node is created (newNode) and started
		c16BoolFact("startshard_orphans_fatal", func() bool {
			p := root()
			return ifInitCallFatal(p.Func("NodeHost", "startShard"), "processOrphans", "panicNow")
		}),
		c16BoolFact("startshard_orphans_before_newnode", func() (b bool) {
			defer func() {
				if recover() != nil {
					b = false // one of the two calls is missing
				}
			}()
			p := root()
			fn := p.Func("NodeHost", "startShard")
			return callLine(p, fn, "processOrphans").Cmp(callLine(p, fn, "newNode")) < 0
		}),
		// the directory name codec: getDirName = "snapshot-%016X", getTempDirName = "%s-%d.%s",
		// and the repetition bounds of the three expressions that recognise the names
		NFact("name_index_width", func() *big.Int {
			f := sprintfFormat(srv(), srv().Func("", "getDirName"))
			m := regexp.MustCompile(`^snapshot-%0(\d+)X$`).FindStringSubmatch(f)
			if m == nil {
				panic("getDirName format " + f)
			}
			v, _ := new(big.Int).SetString(m[1], 10)
			return v
		}),
		NFact("tmp_id_base", func() *big.Int {
			f := sprintfFormat(srv(), srv().Func("", "getTempDirName"))
			switch f {
			case "%s-%d.%s":
				return big.NewInt(10)
			case "%s-%X.%s":
				return big.NewInt(16)
			}
			panic("getTempDirName format " + f)
		}),
		NFact("final_re_idx_min", func() *big.Int { a, _, _, _ := reBounds(srv(), "SnapshotDirNamePartsRe", ""); return a }),
		NFact("final_re_idx_max", func() *big.Int { _, a, _, _ := reBounds(srv(), "SnapshotDirNamePartsRe", ""); return a }),
		NFact("final2_re_idx_min", func() *big.Int { a, _, _, _ := reBounds(srv(), "SnapshotDirNameRe", ""); return a }),
		NFact("final2_re_idx_max", func() *big.Int { _, a, _, _ := reBounds(srv(), "SnapshotDirNameRe", ""); return a }),
		NFact("gen_re_idx_min", func() *big.Int { a, _, _, _ := reBounds(srv(), "GenSnapshotDirNameRe", "generating"); return a }),
		NFact("gen_re_idx_max", func() *big.Int { _, a, _, _ := reBounds(srv(), "GenSnapshotDirNameRe", "generating"); return a }),
		NFact("gen_re_id_min", func() *big.Int { _, _, a, _ := reBounds(srv(), "GenSnapshotDirNameRe", "generating"); return a }),
		NFact("gen_re_id_max", func() *big.Int { _, _, _, a := reBounds(srv(), "GenSnapshotDirNameRe", "generating"); return a }),
		NFact("recv_re_idx_min", func() *big.Int { a, _, _, _ := reBounds(srv(), "RecvSnapshotDirNameRe", "receiving"); return a }),
		NFact("recv_re_idx_max", func() *big.Int { _, a, _, _ := reBounds(srv(), "RecvSnapshotDirNameRe", "receiving"); return a }),
		NFact("recv_re_id_min", func() *big.Int { _, _, a, _ := reBounds(srv(), "RecvSnapshotDirNameRe", "receiving"); return a }),
		NFact("recv_re_id_max", func() *big.Int { _, _, _, a := reBounds(srv(), "RecvSnapshotDirNameRe", "receiving"); return a }),
		// SSEnv.FinalizeSnapshot: createFlagFile ; finalDirExists ; renameToFinalDir
		NFact("finalize_pos_flag", func() *big.Int { p := srv(); return callRank(p, p.Func("SSEnv", "FinalizeSnapshot"), "createFlagFile", "createFlagFile", "finalDirExists", "renameToFinalDir") }),
		NFact("finalize_pos_check", func() *big.Int { p := srv(); return callRank(p, p.Func("SSEnv", "FinalizeSnapshot"), "finalDirExists", "createFlagFile", "finalDirExists", "renameToFinalDir") }),
		NFact("finalize_pos_rename", func() *big.Int { p := srv(); return callRank(p, p.Func("SSEnv", "FinalizeSnapshot"), "renameToFinalDir", "createFlagFile", "finalDirExists", "renameToFinalDir") }),
	}})
}
