package main

import (
	"fmt"
	"go/ast"
	"go/token"
	"math/big"
	"strings"
)

func init() {
	register(&Unit{Name: "C13", Facts: []Fact{
		// the `x >= 1<<49` switch between varint and fixed 8-byte form, as written
		// in the encoder and, separately, in Size()
		NFact("colfer_fixed_threshold_marshal", func() *big.Int {
			p := loadPkg("raftpb")
			var vs []*big.Int
			for _, v := range p.CmpConsts(p.Func("Entry", "marshalTo"), token.GEQ) {
				if v.Cmp(big.NewInt(0x80)) != 0 && v.Sign() != 0 {
					vs = append(vs, v)
				}
			}
			return Unanimous("marshalTo thresholds", vs, 6)
		}),
		NFact("colfer_fixed_threshold_size", func() *big.Int {
			p := loadPkg("raftpb")
			var vs []*big.Int
			for _, v := range p.CmpConsts(p.Func("Entry", "Size"), token.GEQ) {
				if v.Cmp(big.NewInt(0x80)) != 0 && v.Sign() != 0 {
					vs = append(vs, v)
				}
			}
			return Unanimous("Size thresholds", vs, 6)
		}),
		NFact("colfer_size_max", func() *big.Int { return loadPkg("raftpb").Const("ColferSizeMax") }),
		NFact("entry_non_cmd_fields_size", func() *big.Int { return loadPkg("internal/settings").Const("EntryNonCmdFieldsSize") }),
	}})
}

// ---- transport frame (internal/transport/tcp.go) ----

// byteArrayVar evaluates the elements of `name = [N]byte{...}`.
func byteArrayVar(p *Pkg, name string) []*big.Int {
	e, _, ok := p.valueSpec(name)
	if !ok {
		panic("variable " + name + " not found")
	}
	cl, ok := e.(*ast.CompositeLit)
	if !ok {
		panic(name + " is not a composite literal")
	}
	var out []*big.Int
	for _, el := range cl.Elts {
		out = append(out, p.Eval(el, 0))
	}
	return out
}

// hdrOffsets finds, inside requestHeader.<fn>, the calls
// binary.BigEndian.{PutUintN(buf[K:], X) | UintN(buf[K:])} and returns K per
// role: "method" (no offset = 0), "size", "crc", "hcrc".
func hdrOffsets(fn string) map[string]*big.Int {
	p := loadPkg("internal/transport")
	fd := p.Func("requestHeader", fn)
	res := map[string]*big.Int{}
	set := func(role string, v *big.Int) {
		if old, ok := res[role]; ok && old.Cmp(v) != 0 {
			panic(fmt.Sprintf("requestHeader.%s: field %s at two offsets (%s, %s)", fn, role, old, v))
		}
		res[role] = v
	}
	off := func(e ast.Expr) *big.Int {
		if se, ok := e.(*ast.SliceExpr); ok {
			if se.Low == nil {
				return big.NewInt(0)
			}
			return p.Eval(se.Low, 0)
		}
		return big.NewInt(0)
	}
	roleOf := func(e ast.Expr) string {
		switch x := e.(type) {
		case *ast.SelectorExpr:
			return x.Sel.Name // h.size, h.crc, h.method
		case *ast.BasicLit, *ast.Ident:
			return "hcrc" // the literal 0 / the computed checksum v / incoming
		}
		return "?"
	}
	ast.Inspect(fd.Body, func(n ast.Node) bool {
		switch x := n.(type) {
		case *ast.CallExpr:
			sel, ok := x.Fun.(*ast.SelectorExpr)
			if !ok {
				return true
			}
			name := sel.Sel.Name
			if strings.HasPrefix(name, "PutUint") && len(x.Args) == 2 {
				set(roleOf(x.Args[1]), off(x.Args[0]))
			}
		case *ast.AssignStmt:
			// h.size = binary.BigEndian.Uint64(buf[2:]) ; incoming := ...Uint32(buf[10:]) ; method := ...Uint16(buf)
			if len(x.Lhs) == 1 && len(x.Rhs) == 1 {
				if c, ok := x.Rhs[0].(*ast.CallExpr); ok {
					if sel, ok := c.Fun.(*ast.SelectorExpr); ok && strings.HasPrefix(sel.Sel.Name, "Uint") && len(c.Args) == 1 {
						role := "?"
						switch l := x.Lhs[0].(type) {
						case *ast.SelectorExpr:
							role = l.Sel.Name
						case *ast.Ident:
							role = map[string]string{"incoming": "hcrc", "method": "method"}[l.Name]
						}
						set(role, off(c.Args[0]))
					}
				}
			}
		}
		return true
	})
	return res
}

func hdrOffset(role string) *big.Int {
	e, d := hdrOffsets("encode"), hdrOffsets("decode")
	a, ok1 := e[role]
	b, ok2 := d[role]
	if !ok1 || !ok2 {
		panic("header field " + role + " not found in encode/decode")
	}
	if a.Cmp(b) != 0 {
		panic(fmt.Sprintf("header field %s: encode writes at %s, decode reads at %s", role, a, b))
	}
	return a
}

func init() {
	u := units[len(units)-1]
	tp := func() *Pkg { return loadPkg("internal/transport") }
	u.Facts = append(u.Facts,
		NFact("request_header_size", func() *big.Int { return tp().Const("requestHeaderSize") }),
		NFact("raft_type", func() *big.Int { return tp().Const("raftType") }),
		NFact("snapshot_type", func() *big.Int { return tp().Const("snapshotType") }),
		NFact("magic0", func() *big.Int { return byteArrayVar(tp(), "magicNumber")[0] }),
		NFact("magic1", func() *big.Int { return byteArrayVar(tp(), "magicNumber")[1] }),
		NFact("poison0", func() *big.Int { return byteArrayVar(tp(), "poisonNumber")[0] }),
		NFact("poison1", func() *big.Int { return byteArrayVar(tp(), "poisonNumber")[1] }),
		NFact("hdr_off_method", func() *big.Int { return hdrOffset("method") }),
		NFact("hdr_off_size", func() *big.Int { return hdrOffset("size") }),
		NFact("hdr_off_hcrc", func() *big.Int { return hdrOffset("hcrc") }),
		NFact("hdr_off_crc", func() *big.Int { return hdrOffset("crc") }),
	)
}

// ---- SizeUpperLimit constants (raftpb/raft_optimized.go, raftpb/update.go) ----

// upperConsts returns, in source order, the values of the maximal constant
// sub-expressions on the right-hand sides of the assignments and of the return
// statements of recv.SizeUpperLimit.
func upperConsts(file, recv string) []*big.Int {
	p := loadPkg("raftpb")
	fd := p.Func(recv, "SizeUpperLimit")
	_ = file
	var out []*big.Int
	var walk func(e ast.Expr)
	walk = func(e ast.Expr) {
		var v *big.Int
		func() {
			defer func() {
				if recover() != nil {
					v = nil
				}
			}()
			// identifiers are variables here, never constants
			ok := true
			ast.Inspect(e, func(n ast.Node) bool {
				switch n.(type) {
				case *ast.Ident, *ast.CallExpr, *ast.SelectorExpr:
					ok = false
				}
				return ok
			})
			if ok {
				v = p.Eval(e, 0)
			}
		}()
		if v != nil {
			out = append(out, v)
			return
		}
		switch x := e.(type) {
		case *ast.BinaryExpr:
			walk(x.X)
			walk(x.Y)
		case *ast.ParenExpr:
			walk(x.X)
		}
	}
	ast.Inspect(fd.Body, func(n ast.Node) bool {
		switch x := n.(type) {
		case *ast.AssignStmt:
			for _, r := range x.Rhs {
				walk(r)
			}
		case *ast.ReturnStmt:
			for _, r := range x.Results {
				walk(r)
			}
		}
		return true
	})
	return out
}

func upperConst(recv string, want int, idx int) func() *big.Int {
	return func() *big.Int {
		cs := upperConsts("", recv)
		if len(cs) != want {
			panic(fmt.Sprintf("%s.SizeUpperLimit: expected %d constants, found %v", recv, want, cs))
		}
		return cs[idx]
	}
}

func init() {
	u := units[len(units)-1]
	u.Facts = append(u.Facts,
		NFact("state_size_upper_limit", upperConst("State", 1, 0)),
		NFact("eb_upper_base", upperConst("EntryBatch", 2, 0)),
		NFact("eb_upper_per_entry", upperConst("EntryBatch", 2, 1)),
		NFact("msg_upper_base", upperConst("Message", 3, 1)),
		NFact("msg_upper_per_entry", upperConst("Message", 3, 2)),
		NFact("bt_upper_base", upperConst("MessageBatch", 3, 1)),
		NFact("bt_upper_per_msg", upperConst("MessageBatch", 3, 2)),
		NFact("update_upper_head", upperConst("Update", 2, 0)),
		NFact("update_upper_nosnapshot", upperConst("Update", 2, 1)),
	)
}

// ---- `x != nil` versus `len(x) > 0` guards of the optional byte fields ----

// guardIsNil reports whether recv.<fn> guards field with `m.field != nil`
// (true) or with `len(m.field) > 0` (false); anything else is a panic, i.e. a
// missing fact.
func guardIsNil(recv, fn, field string) bool {
	p := loadPkg("raftpb")
	fd := p.Func(recv, fn)
	found := ""
	isField := func(e ast.Expr) bool {
		se, ok := e.(*ast.SelectorExpr)
		return ok && se.Sel.Name == field
	}
	ast.Inspect(fd.Body, func(n ast.Node) bool {
		is, ok := n.(*ast.IfStmt)
		if !ok {
			return true
		}
		be, ok := is.Cond.(*ast.BinaryExpr)
		if !ok {
			return true
		}
		if be.Op == token.NEQ && isField(be.X) {
			if id, ok := be.Y.(*ast.Ident); ok && id.Name == "nil" {
				found += "n"
			}
		}
		if be.Op == token.GTR {
			if c, ok := be.X.(*ast.CallExpr); ok && len(c.Args) == 1 && isField(c.Args[0]) {
				if id, ok := c.Fun.(*ast.Ident); ok && id.Name == "len" {
					if lit, ok := be.Y.(*ast.BasicLit); ok && lit.Value == "0" {
						found += "l"
					}
				}
			}
		}
		return true
	})
	switch found {
	case "n":
		return true
	case "l":
		return false
	}
	panic(fmt.Sprintf("%s.%s: guard of field %s not recognised (%q)", recv, fn, field, found))
}

func init() {
	u := units[len(units)-1]
	for _, x := range [][3]string{
		{"SnapshotFile", "Metadata", "sf_metadata"}, {"Snapshot", "Checksum", "sn_checksum"},
		{"SnapshotHeader", "HeaderChecksum", "sh_header_checksum"},
		{"SnapshotHeader", "PayloadChecksum", "sh_payload_checksum"}, {"Chunk", "Data", "ck_data"}} {
		x := x
		for _, fn := range [][2]string{{"MarshalTo", "marshal"}, {"Size", "size"}} {
			fn := fn
			name := x[2] + "_guard_nil_" + fn[1]
			u.Facts = append(u.Facts, Fact{Name: name, Gen: func() string {
				return defBool(name, guardIsNil(x[0], fn[0], x[1]))
			}})
		}
	}
}

// ---- where the transport's "encrypted" (= payload checksum off) flag comes from ----

// encryptedIsMutualTLS: in NewTCPTransport the field `encrypted` of the TCP
// literal is initialised with exactly `<param>.MutualTLS`.
func encryptedIsMutualTLS() bool {
	p := loadPkg("internal/transport")
	fd := p.Func("", "NewTCPTransport")
	res, found := false, false
	ast.Inspect(fd.Body, func(n ast.Node) bool {
		kv, ok := n.(*ast.KeyValueExpr)
		if !ok {
			return true
		}
		if id, ok := kv.Key.(*ast.Ident); ok && id.Name == "encrypted" {
			found = true
			if se, ok := kv.Value.(*ast.SelectorExpr); ok && se.Sel.Name == "MutualTLS" {
				if _, ok := se.X.(*ast.Ident); ok {
					res = true
				}
			}
		}
		return true
	})
	if !found {
		panic("NewTCPTransport: field encrypted not initialised in a composite literal")
	}
	return res
}

// passesFlag: every call of fn inside the functions of tcp.go passes an
// expression ending in `.encrypted` as its last argument.
func passesEncrypted(fns ...string) bool {
	p := loadPkg("internal/transport")
	ok, seen := true, 0
	for name, f := range p.Files {
		if name != "tcp.go" {
			continue
		}
		ast.Inspect(f, func(n ast.Node) bool {
			c, isCall := n.(*ast.CallExpr)
			if !isCall {
				return true
			}
			id, isId := c.Fun.(*ast.Ident)
			if !isId {
				return true
			}
			for _, fn := range fns {
				if id.Name == fn && len(c.Args) > 0 {
					seen++
					last := c.Args[len(c.Args)-1]
					se, isSel := last.(*ast.SelectorExpr)
					if !isSel || se.Sel.Name != "encrypted" {
						ok = false
					}
				}
			}
			return true
		})
	}
	if seen < 4 {
		panic(fmt.Sprintf("expected at least 4 calls of %v, found %d", fns, seen))
	}
	return ok
}

func init() {
	u := units[len(units)-1]
	u.Facts = append(u.Facts,
		Fact{Name: "encrypted_is_mutual_tls", Gen: func() string {
			return defBool("encrypted_is_mutual_tls", encryptedIsMutualTLS())
		}},
		Fact{Name: "frame_calls_pass_encrypted", Gen: func() string {
			return defBool("frame_calls_pass_encrypted",
				passesEncrypted("writeMessage", "readMessage", "NewTCPConnection", "NewTCPSnapshotConnection"))
		}},
	)
}

// ---- the connection worker closes the connection when serveConn returns ----

// serveThenClose: in TCP.Start there is a function literal whose body is
// exactly `t.serveConn(conn); closeFn()`.
func serveThenClose() bool {
	p := loadPkg("internal/transport")
	fd := p.Func("TCP", "Start")
	found := false
	ast.Inspect(fd.Body, func(n ast.Node) bool {
		fl, ok := n.(*ast.FuncLit)
		if !ok || len(fl.Body.List) != 2 {
			return true
		}
		call := func(s ast.Stmt) string {
			es, ok := s.(*ast.ExprStmt)
			if !ok {
				return ""
			}
			c, ok := es.X.(*ast.CallExpr)
			if !ok {
				return ""
			}
			switch f := c.Fun.(type) {
			case *ast.SelectorExpr:
				return f.Sel.Name
			case *ast.Ident:
				return f.Name
			}
			return ""
		}
		if call(fl.Body.List[0]) == "serveConn" && call(fl.Body.List[1]) == "closeFn" {
			found = true
		}
		return true
	})
	return found
}

func init() {
	u := units[len(units)-1]
	u.Facts = append(u.Facts, Fact{Name: "serve_conn_then_close", Gen: func() string {
		return defBool("serve_conn_then_close", serveThenClose())
	}})
}
