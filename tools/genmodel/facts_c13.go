package main

import (
	"go/token"
	"math/big"
)

func init() {
	register(&Unit{Name: "C13", Facts: []Fact{
		// the `x >= 1<<49` switch between varint and fixed 8-byte form, as written
		// in the encoder and, separately, in Size()
		NFact("colfer_fixed_threshold_marshal", func() *big.Int {
			p := loadPkg("raftpb")
			var vs []*big.Int
			for _, v := range p.CmpConsts(p.Func("Entry", "marshalTo"), token.GEQ) {
				if v.Cmp(big.NewInt(0x80)) != 0 && v.Sign() != 0 {
					vs = append(vs, v)
				}
			}
			return Unanimous("marshalTo thresholds", vs, 6)
		}),
		NFact("colfer_fixed_threshold_size", func() *big.Int {
			p := loadPkg("raftpb")
			var vs []*big.Int
			for _, v := range p.CmpConsts(p.Func("Entry", "Size"), token.GEQ) {
				if v.Cmp(big.NewInt(0x80)) != 0 && v.Sign() != 0 {
					vs = append(vs, v)
				}
			}
			return Unanimous("Size thresholds", vs, 6)
		}),
		NFact("colfer_size_max", func() *big.Int { return loadPkg("raftpb").Const("ColferSizeMax") }),
		NFact("entry_non_cmd_fields_size", func() *big.Int { return loadPkg("internal/settings").Const("EntryNonCmdFieldsSize") }),
	}})
}
